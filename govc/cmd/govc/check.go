package main

import (
	"encoding/json"
	"flag"
	"fmt"
	"os"
	"path/filepath"
	"regexp"
	"sort"
	"strconv"
	"strings"
	"time"

	"golang.org/x/tools/go/ssa"

	"govc/vc"
)

// verifDir is /verif; GOVC_VERIF_DIR points the tool at a frozen copy (seed re-runs in the background)
var verifDir = func() string {
	if d := os.Getenv("GOVC_VERIF_DIR"); d != "" {
		return d
	}
	return "/verif"
}()

var replayBase string

type finding struct {
	Status     string `json:"status"`
	Property   string `json:"property"`
	Obligation string `json:"obligation"`
	Commit     string `json:"commit,omitempty"`
	Witness    string `json:"witness,omitempty"`
	What       string `json:"what"`
}

type findingsFile struct {
	Comment  string    `json:"comment"`
	Findings []finding `json:"findings"`
}

func loadFindings() findingsFile {
	var ff findingsFile
	data, err := os.ReadFile(filepath.Join(verifDir, "known_findings.json"))
	if err == nil {
		_ = json.Unmarshal(data, &ff)
	}
	return ff
}

func hasProp(props []string, p string) bool {
	for _, x := range props {
		if x == p {
			return true
		}
	}
	return false
}

var safetyKind = regexp.MustCompile(`#(nil|bounds|div|assert|pre@|guard-|unreach|makeslice|nilmap|cover|frame)`)

func stableName(n string) bool { return !safetyKind.MatchString(n) }

func sanitizeFile(s string) string {
	var sb strings.Builder
	for _, r := range s {
		if r >= 'a' && r <= 'z' || r >= 'A' && r <= 'Z' || r >= '0' && r <= '9' || r == '.' || r == '-' || r == '_' {
			sb.WriteRune(r)
		} else {
			sb.WriteByte('_')
		}
	}
	out := sb.String()
	if len(out) > 150 {
		out = out[:150]
	}
	return out
}

type checkOutcome struct {
	property   string
	tier       string
	results    []*vc.Result
	vcs        []*vc.VC
	funcs      []string
	lemmas     []string
	genErrors  []string
	toolErrors []string
	violations []violation
	known      []string
	wall       float64
}

type violation struct {
	obligation string
	reason     string
	replay     string
	confirmed  bool
}

func cmdCheck(args []string) {
	fs := flag.NewFlagSet("check", flag.ExitOnError)
	prop := fs.String("property", "", "property id")
	tier := fs.String("tier", "quick", "quick|thorough")
	repo := fs.String("repo", "/repo", "repository")
	spec := fs.String("spec", filepath.Join(verifDir, "spec"), "spec library")
	noEvidence := fs.Bool("no-evidence", false, "do not write the evidence file (used by selftest)")
	baseline := fs.Bool("write-expected", false, "record the set of stable obligation names as expected")
	replayDirFlag := fs.String("replay-dir", "", "directory for replay files (default /verif/replays/<id>)")
	fs.Parse(args)
	if *prop == "" {
		usage()
	}
	if t := os.Getenv("VERIF_TIER"); t != "" && (t == "quick" || t == "thorough") && false {
		*tier = t
	}
	seed := 0
	if s := os.Getenv("VERIF_SEED"); s != "" {
		seed, _ = strconv.Atoi(s)
	}
	t0 := time.Now()
	w := load(*repo, *spec)
	out := runProperty(w, *prop, *tier, *repo)
	out.wall = time.Since(t0).Seconds()
	replayBase = *replayDirFlag
	code := report(w, out, seed, !*noEvidence, *baseline)
	os.Exit(code)
}

func runProperty(w *vc.World, prop, tier, repo string) *checkOutcome {
	out := &checkOutcome{property: prop, tier: tier}
	var fns []*ssa.Function
	usedLemmas := map[string]bool{}
	for _, fn := range w.FuncsWithContracts() {
		fc := w.ContractOf(fn)
		if !hasProp(fc.Props, prop) {
			continue
		}
		fns = append(fns, fn)
		for _, u := range fc.Uses {
			usedLemmas[u] = true
		}
		for _, u := range fc.UseCalls {
			if c, ok := u.E.(vc.ECall); ok {
				usedLemmas[c.Fun] = true
			}
		}
		for _, ls := range fc.Loops {
			for _, u := range ls.Lemmas {
				if c, ok := u.E.(vc.ECall); ok {
					usedLemmas[c.Fun] = true
				}
			}
		}
	}
	for _, name := range w.C.LemOrd {
		if hasProp(w.C.Lemmas[name].Props, prop) {
			usedLemmas[name] = true
		}
	}
	// transitive closure of lemma uses
	for changed := true; changed; {
		changed = false
		for name := range usedLemmas {
			lm := w.C.Lemmas[name]
			if lm == nil {
				out.genErrors = append(out.genErrors, "unknown lemma "+name)
				delete(usedLemmas, name)
				changed = true
				break
			}
			for _, u := range lm.Uses {
				if !usedLemmas[u] {
					usedLemmas[u] = true
					changed = true
				}
			}
		}
	}
	var obls []*vc.Obligation
	for _, fn := range fns {
		v := w.VerifyFunc(fn)
		out.vcs = append(out.vcs, v)
		out.funcs = append(out.funcs, vc.FnDisplay(fn))
		obls = append(obls, v.Obls...)
		out.genErrors = append(out.genErrors, v.Errors...)
	}
	for _, name := range w.C.LemOrd {
		if !usedLemmas[name] {
			continue
		}
		v := w.VerifyLemma(w.C.Lemmas[name])
		out.vcs = append(out.vcs, v)
		out.lemmas = append(out.lemmas, name)
		obls = append(obls, v.Obls...)
		out.genErrors = append(out.genErrors, v.Errors...)
	}
	if prop == "C07" {
		v := w.AritySweep()
		out.vcs = append(out.vcs, v)
		out.funcs = append(out.funcs, "arity sweep over every function of the module")
		obls = append(obls, v.Obls...)
		out.genErrors = append(out.genErrors, v.Errors...)
	}
	cfg := vc.SolverCfg{TimeoutSec: 10, StopAfter: 12}
	if tier == "thorough" {
		cfg.TimeoutSec = 60
		cfg.CrossCheck = true
		cfg.StopAfter = 0
	}
	{
		known := map[string]finding{}
		for _, f := range loadFindings().Findings {
			if f.Status == "known" && f.Property == prop {
				known[f.Obligation] = f
			}
		}
		cfg.Known = func(name string) bool { _, ok := knownName(known, name); return ok }
	}
	out.results = vc.Solve(obls, cfg)
	return out
}

func report(w *vc.World, out *checkOutcome, seed int, writeEvidence, writeExpected bool) int {
	prop := out.property
	ff := loadFindings()
	knownByObl := map[string]finding{}
	for _, f := range ff.Findings {
		if f.Status == "known" && f.Property == prop {
			knownByObl[f.Obligation] = f
		}
	}
	expectedPath := filepath.Join(verifDir, "expected", prop+".txt")
	replayDir := filepath.Join(verifDir, "replays", prop)
	if replayBase != "" {
		replayDir = filepath.Join(replayBase, prop)
	}

	proved, total, skipped := 0, 0, 0
	bySolver := map[string]int{}
	byKind := map[string]int{}
	var solverSecs float64
	var samples []map[string]any
	present := map[string]bool{}
	knownHit := map[string]bool{}
	for _, r := range out.results {
		present[r.O.Name] = true
		solverSecs += r.Seconds
		if kn, isKnown := knownName(knownByObl, r.O.Name); isKnown {
			if r.Status == vc.Proved {
				// a listed finding that now proves: the defect is gone; count normally
			} else {
				knownHit[kn] = true
				continue
			}
		}
		if r.Status == vc.Skipped {
			skipped++
			continue
		}
		total++
		byKind[r.O.Kind]++
		switch r.Status {
		case vc.Proved:
			proved++
			bySolver[r.Solver]++
			if len(samples) < 6 && !r.O.Trivial && r.O.Kind != "cover" {
				samples = append(samples, map[string]any{"obligation": r.O.Name, "clause": r.O.Info, "solver": r.Solver, "seconds": round3(r.Seconds)})
			}
		case vc.Refuted, vc.Undecided, vc.ToolError:
			v := violation{obligation: r.O.Name}
			switch r.Status {
			case vc.Refuted:
				v.reason = "refuted by " + r.Solver + " (counter-model found)"
			case vc.Undecided:
				v.reason = "no solver could discharge it (undecided within the time limit)"
			default:
				// the obligation exists but could not be discharged: a vacuity guard fired
				// (the code path became unreachable / the assumptions contradictory), the
				// solvers rejected the query or disagreed. On the unchanged tree this never
				// happens; after a change it means the obligation no longer holds as stated.
				v.reason = "not discharged: " + firstLine(r.Output)
			}
			os.MkdirAll(replayDir, 0o755)
			v.replay = filepath.Join(replayDir, sanitizeFile(r.O.Name)+".json")
			rep := map[string]any{
				"property": prop, "obligation": r.O.Name, "clause": r.O.Info, "status": r.Status.String(),
				"reason": v.reason, "solver_output": truncate(r.Output, 20000), "smt": r.O.SMT(),
			}
			confirmed, detail := tryReplay(w, r, rep)
			v.confirmed = confirmed
			rep["replay"] = detail
			data, _ := json.MarshalIndent(rep, "", " ")
			os.WriteFile(v.replay, data, 0o644)
			out.violations = append(out.violations, v)
		}
	}
	// contract targets that vanished
	for _, u := range w.Unresolved {
		out.genErrors = append(out.genErrors, u)
	}
	// expected stable obligations must still exist
	if writeExpected {
		var names []string
		for n := range present {
			if stableName(n) {
				names = append(names, n)
			}
		}
		sort.Strings(names)
		os.MkdirAll(filepath.Dir(expectedPath), 0o755)
		os.WriteFile(expectedPath, []byte(strings.Join(names, "\n")+"\n"), 0o644)
	} else if data, err := os.ReadFile(expectedPath); err == nil {
		for _, n := range strings.Split(strings.TrimSpace(string(data)), "\n") {
			if n == "" || present[n] {
				continue
			}
			os.MkdirAll(replayDir, 0o755)
			v := violation{obligation: n, reason: "obligation discharged on the reference tree is no longer generated (function or contract target missing, or code left the verifiable subset)"}
			v.replay = filepath.Join(replayDir, sanitizeFile(n)+".json")
			data, _ := json.MarshalIndent(map[string]any{"property": prop, "obligation": n, "status": "missing", "reason": v.reason, "generator_errors": out.genErrors}, "", " ")
			os.WriteFile(v.replay, data, 0o644)
			out.violations = append(out.violations, v)
		}
	}
	if total == 0 && len(out.violations) == 0 {
		out.toolErrors = append(out.toolErrors, "no obligations were generated for "+prop)
	}
	// generator errors on functions of this property mean the carrier can no longer be encoded
	for _, e := range out.genErrors {
		os.MkdirAll(replayDir, 0o755)
		v := violation{obligation: "generator", reason: "carrier can no longer be encoded: " + e}
		v.replay = filepath.Join(replayDir, "generator-"+sanitizeFile(e)+".json")
		data, _ := json.MarshalIndent(map[string]any{"property": prop, "obligation": "generator", "status": "unencodable", "reason": e}, "", " ")
		os.WriteFile(v.replay, data, 0o644)
		out.violations = append(out.violations, v)
	}

	// assumptions
	trusted := map[string]bool{}
	outside := map[string]bool{}
	for _, v := range out.vcs {
		for t := range v.Trusted {
			trusted[t] = true
		}
		for o := range v.Outside {
			outside[o] = true
		}
	}
	baseTrust := []string{
		"govc itself: go/ssa → SMT translation (DESIGN.md §2, Appendix D) is trusted, not verified",
		"SMT solvers z3 5.1.0 / z3 4.8.12 / cvc5 1.0.3 are trusted for 'unsat'",
		"integers: exact machine semantics via ite/mod over mathematical Int (DESIGN.md §2.3)",
		"no concurrency: functions are verified as sequential code",
		"allocation always succeeds; termination only where a decreases clause is discharged",
	}
	var trustedList []string
	trustedList = append(trustedList, baseTrust...)
	trustedList = append(trustedList, sortedKeys(trusted)...)
	for _, o := range sortedKeys(outside) {
		trustedList = append(trustedList, "outside subset (abstracted): "+o)
	}

	for name, f := range knownByObl {
		if knownHit[name] {
			fmt.Printf("KNOWN-FINDING: property=%s %s %s\n", prop, name, f.What)
			out.known = append(out.known, name)
		}
	}
	for _, v := range out.violations {
		line := fmt.Sprintf("VIOLATION property=%s replay=%s", prop, v.replay)
		if !v.confirmed {
			line += " no-failing-input-found"
		}
		fmt.Fprintf(os.Stderr, "govc: %s: %s\n", v.obligation, v.reason)
		fmt.Println(line)
	}
	for _, e := range out.toolErrors {
		fmt.Fprintln(os.Stderr, "govc: tool error:", e)
	}

	if writeEvidence {
		level := "proof"
		ev := map[string]any{
			"property_id": prop, "tier": out.tier, "seed": seed, "level": level,
			"wall_s":     round3(out.wall),
			"violations": len(out.violations),
			"coverage": map[string]any{
				"obligations":              total,
				"discharged":               proved,
				"checker_cmd":              fmt.Sprintf("bin/govc check --property %s --tier %s", prop, out.tier),
				"trusted_base":             trustedList,
				"functions_under_contract": out.funcs,
				"lemmas_proved":            out.lemmas,
				"obligations_by_kind":      byKind,
				"discharged_by_solver":     bySolver,
				"solver_seconds":           round3(solverSecs),
				"known_findings_hit":       out.known,
				"not_attempted":            skipped, // quick tier only: obligations left out after the first 12 that could not be discharged (always 0 when the check passes)
				"samples":                  samples,
				"explanation":              propScope[prop],
				"contract_files":           w.ContractFiles,
			},
			"assumptions": trustedList,
		}
		os.MkdirAll(filepath.Join(verifDir, "evidence"), 0o755)
		data, _ := json.MarshalIndent(ev, "", " ")
		os.WriteFile(filepath.Join(verifDir, "evidence", prop+".json"), data, 0o644)
	}
	fmt.Fprintf(os.Stderr, "govc: %s %s: %d functions, %d lemmas, %d obligations, %d discharged, %d violations, %d known findings, %.1fs\n",
		prop, out.tier, len(out.funcs), len(out.lemmas), total, proved, len(out.violations), len(out.known), out.wall)
	if len(out.toolErrors) > 0 && len(out.violations) == 0 {
		return 2
	}
	if len(out.violations) > 0 {
		return 1
	}
	return 0
}

func sortedKeys(m map[string]bool) []string {
	var out []string
	for k := range m {
		out = append(out, k)
	}
	sort.Strings(out)
	return out
}

func round3(f float64) float64 { return float64(int(f*1000+0.5)) / 1000 }

func truncate(s string, n int) string {
	if len(s) > n {
		return s[:n] + "…"
	}
	return s
}

// propScope: one-paragraph scope statement per property, repeated in the evidence.
var propScope = map[string]string{}

func tryReplay(w *vc.World, r *vc.Result, rep map[string]any) (bool, string) {
	return false, "no automatic replay available for this obligation; the solver output is attached"
}

func firstLine(s string) string {
	s = strings.TrimSpace(s)
	if i := strings.IndexByte(s, '\n'); i >= 0 {
		s = s[:i]
	}
	if len(s) > 300 {
		s = s[:300]
	}
	return s
}

// knownName: an obligation matches a listed finding when the names are equal or
// the obligation is one conjunct / path variant of it (name + "/k" or "~k").
func knownName(known map[string]finding, name string) (string, bool) {
	if _, ok := known[name]; ok {
		return name, true
	}
	for k := range known {
		if strings.HasPrefix(name, k) && len(name) > len(k) && (name[len(k)] == '/' || name[len(k)] == '~') {
			return k, true
		}
	}
	return "", false
}
