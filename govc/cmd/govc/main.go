package main

import (
	"flag"
	"fmt"
	"os"
	"regexp"
	"sort"
	"strings"
	"time"

	"govc/vc"
)

func usage() {
	fmt.Fprintln(os.Stderr, `usage:
  govc verify [-repo DIR] [-spec DIR] [-timeout N] [-v] [-keep DIR] REGEXP   verify functions/lemmas whose name matches
  govc check  --property Cxx --tier quick|thorough                         property check (writes evidence)
  govc replay PATH                                                         re-run a stored replay
  govc list                                                                list functions under contract`)
	os.Exit(2)
}

func main() {
	if len(os.Args) < 2 {
		usage()
	}
	switch os.Args[1] {
	case "verify":
		cmdVerify(os.Args[2:])
	case "list":
		cmdList(os.Args[2:])
	case "check":
		cmdCheck(os.Args[2:])
	case "replay":
		cmdReplay(os.Args[2:])
	case "selftest":
		cmdSelftest(os.Args[2:])
	case "sweep":
		cmdSweep(os.Args[2:])
	default:
		usage()
	}
}

func load(repo, spec string) *vc.World {
	t0 := time.Now()
	w, err := vc.Load(repo, spec)
	if err != nil {
		fmt.Fprintln(os.Stderr, "govc: load error:", err)
		os.Exit(2)
	}
	if err := w.ProcessSpecs(); err != nil {
		fmt.Fprintln(os.Stderr, "govc: spec error:", err)
		os.Exit(2)
	}
	for _, u := range w.Unresolved {
		fmt.Fprintln(os.Stderr, "govc: warning:", u)
	}
	fmt.Fprintf(os.Stderr, "govc: loaded %s in %.1fs (%d contract files)\n", repo, time.Since(t0).Seconds(), len(w.ContractFiles))
	return w
}

func cmdList(args []string) {
	fs := flag.NewFlagSet("list", flag.ExitOnError)
	repo := fs.String("repo", "/repo", "repository")
	spec := fs.String("spec", "/verif/spec", "spec library")
	fs.Parse(args)
	w := load(*repo, *spec)
	for _, fn := range w.FuncsWithContracts() {
		fc := w.ContractOf(fn)
		status := "verified"
		if fc.Trusted != "" {
			status = "TRUSTED (assumed)"
		}
		extra := ""
		if len(fc.Assumes) > 0 {
			extra = fmt.Sprintf(" +%d entry assumption(s)", len(fc.Assumes))
		}
		fmt.Printf("%-70s props=%v %s%s\n", vc.FnDisplay(fn), fc.Props, status, extra)
	}
}

func cmdVerify(args []string) {
	fs := flag.NewFlagSet("verify", flag.ExitOnError)
	repo := fs.String("repo", "/repo", "repository")
	spec := fs.String("spec", "/verif/spec", "spec library")
	timeout := fs.Int("timeout", 10, "solver timeout (s)")
	verbose := fs.Bool("v", false, "verbose")
	keep := fs.String("keep", "", "keep SMT files in DIR")
	fs.Parse(args)
	if fs.NArg() != 1 {
		usage()
	}
	re := regexp.MustCompile(fs.Arg(0))
	w := load(*repo, *spec)
	var obls []*vc.Obligation
	var vcs []*vc.VC
	for _, fn := range w.FuncsWithContracts() {
		if !re.MatchString(vc.FnDisplay(fn)) {
			continue
		}
		v := w.VerifyFunc(fn)
		vcs = append(vcs, v)
		obls = append(obls, v.Obls...)
	}
	for _, name := range w.C.LemOrd {
		if !re.MatchString("lemma." + name) {
			continue
		}
		v := w.VerifyLemma(w.C.Lemmas[name])
		vcs = append(vcs, v)
		obls = append(obls, v.Obls...)
	}
	bad := 0
	for _, v := range vcs {
		for _, e := range v.Errors {
			fmt.Println("ERROR:", e)
			bad++
		}
	}
	cfg := vc.SolverCfg{TimeoutSec: *timeout, WorkDir: *keep, KeepFiles: *keep != ""}
	t0 := time.Now()
	res := vc.Solve(obls, cfg)
	counts := map[vc.Status]int{}
	for _, r := range res {
		counts[r.Status]++
		if r.Status != vc.Proved || *verbose {
			fmt.Printf("%-10s %-70s %-8s %.2fs  %s\n", r.Status, r.O.Name, r.Solver, r.Seconds, r.O.Info)
			if r.Status != vc.Proved {
				if r.File != "" {
					fmt.Printf("           file: %s\n", r.File)
				}
				if r.Status == vc.ToolError {
					fmt.Printf("           %s\n", r.Output)
				}
			}
		}
	}
	for _, v := range vcs {
		var outs []string
		for o := range v.Outside {
			outs = append(outs, o)
		}
		sort.Strings(outs)
		if len(outs) > 0 && *verbose {
			fmt.Printf("outside-subset in %s: %s\n", v.Name, strings.Join(outs, "; "))
		}
	}
	fmt.Printf("%d obligations: %d proved, %d refuted, %d undecided, %d tool errors, %d generator errors (%.1fs)\n",
		len(res), counts[vc.Proved], counts[vc.Refuted], counts[vc.Undecided], counts[vc.ToolError], bad, time.Since(t0).Seconds())
	if counts[vc.Refuted]+counts[vc.Undecided]+counts[vc.ToolError]+bad > 0 {
		os.Exit(1)
	}
}

// cmdSweep: zero-annotation safety sweep — verify functions WITHOUT contracts
// against the empty contract (no panics for arbitrary well-typed inputs) and
// list what fails. Exploration aid for writing thin safety contracts.
func cmdSweep(args []string) {
	fs := flag.NewFlagSet("sweep", flag.ExitOnError)
	repo := fs.String("repo", "/repo", "repository")
	spec := fs.String("spec", "/verif/spec", "spec library")
	timeout := fs.Int("timeout", 3, "solver timeout")
	fs.Parse(args)
	re := regexp.MustCompile(fs.Arg(0))
	w := load(*repo, *spec)
	var obls []*vc.Obligation
	for _, fn := range w.AllModuleFuncs() {
		if !re.MatchString(vc.FnDisplay(fn)) || w.ContractOf(fn) != nil {
			continue
		}
		v := w.VerifyFunc(fn)
		for _, e := range v.Errors {
			fmt.Println("ERROR:", e)
		}
		obls = append(obls, v.Obls...)
	}
	res := vc.Solve(obls, vc.SolverCfg{TimeoutSec: *timeout})
	n := 0
	for _, r := range res {
		if r.Status != vc.Proved {
			n++
			fmt.Printf("%-10s %-70s %s\n", r.Status, r.O.Name, r.O.Info)
		}
	}
	fmt.Printf("%d obligations, %d not proved\n", len(res), n)
}
