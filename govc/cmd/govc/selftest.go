package main

import (
	"encoding/json"
	"flag"
	"fmt"
	"os"
	"os/exec"
	"path/filepath"
	"sort"
	"strings"
)

// selftest: every /verif/selftest/<name>.patch is a deliberately
// property-breaking edit of the repository. Each is applied to a scratch copy
// (removed afterwards) and the named property check must report a violation.
type selfCase struct {
	Property string `json:"property"`
	Expect   string `json:"expect"` // substring that must occur in a failing obligation name ("" = any)
	What     string `json:"what"`
}

func cmdSelftest(args []string) {
	fs := flag.NewFlagSet("selftest", flag.ExitOnError)
	only := fs.String("property", "", "only cases of this property")
	name := fs.String("case", "", "only this case")
	fs.Parse(args)
	dir := filepath.Join(verifDir, "selftest")
	patches, _ := filepath.Glob(filepath.Join(dir, "*.patch"))
	sort.Strings(patches)
	failed := 0
	ran := 0
	for _, p := range patches {
		base := strings.TrimSuffix(filepath.Base(p), ".patch")
		var sc selfCase
		meta, err := os.ReadFile(filepath.Join(dir, base+".json"))
		if err != nil || json.Unmarshal(meta, &sc) != nil {
			fmt.Printf("selftest %s: missing/invalid meta\n", base)
			failed++
			continue
		}
		if *only != "" && sc.Property != *only {
			continue
		}
		if *name != "" && base != *name {
			continue
		}
		ran++
		scratch, err := os.MkdirTemp("/var/tmp", "govc-selftest-")
		if err != nil {
			fmt.Println("selftest: cannot create scratch dir:", err)
			os.Exit(2)
		}
		ok, detail := runSelfCase(scratch, p, sc)
		os.RemoveAll(scratch)
		if ok {
			fmt.Printf("selftest %-40s %s: detected (%s)\n", base, sc.Property, detail)
		} else {
			fmt.Printf("selftest %-40s %s: NOT DETECTED (%s)\n", base, sc.Property, detail)
			failed++
		}
	}
	fmt.Printf("selftest: %d cases, %d not detected\n", ran, failed)
	if failed > 0 {
		os.Exit(1)
	}
}

func runSelfCase(scratch, patch string, sc selfCase) (bool, string) {
	repo := filepath.Join(scratch, "repo")
	if out, err := exec.Command("cp", "-r", "/repo", repo).CombinedOutput(); err != nil {
		return false, "copy failed: " + string(out)
	}
	cmd := exec.Command("git", "-C", repo, "apply", patch)
	if out, err := cmd.CombinedOutput(); err != nil {
		return false, "patch does not apply: " + string(out)
	}
	self, _ := os.Executable()
	c := exec.Command(self, "check", "--property", sc.Property, "--repo", repo, "--no-evidence", "--replay-dir", filepath.Join(scratch, "replays"))
	out, _ := c.CombinedOutput()
	code := c.ProcessState.ExitCode()
	text := string(out)
	if code != 1 || !strings.Contains(text, "VIOLATION property="+sc.Property) {
		return false, fmt.Sprintf("exit %d, no VIOLATION line", code)
	}
	if sc.Expect != "" {
		found := false
		for _, l := range strings.Split(text, "\n") {
			if strings.HasPrefix(l, "govc: ") && strings.Contains(l, sc.Expect) {
				found = true
			}
		}
		if !found {
			return false, "violation reported, but not on an obligation matching " + sc.Expect
		}
	}
	n := strings.Count(text, "VIOLATION property=")
	return true, fmt.Sprintf("%d obligations failed", n)
}
