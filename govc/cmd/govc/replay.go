package main

import (
	"encoding/json"
	"fmt"
	"os"
	"os/exec"
	"path/filepath"
	"regexp"
	"strings"

	"govc/vc"
)

// cmdReplay re-examines a stored violation against the CURRENT tree:
//  1. the named obligation is regenerated from /repo and handed to the solvers
//     again (is it still undischarged?);
//  2. if the replay file carries a Go test (a concrete failing input found for
//     the obligation), the test is run in-package through `go test -overlay`
//     (nothing is written into /repo).
//
// Exit 1 if the violation is still present, 0 if it is gone.
func cmdReplay(args []string) {
	if len(args) != 1 {
		usage()
	}
	data, err := os.ReadFile(args[0])
	if err != nil {
		fmt.Fprintln(os.Stderr, "govc replay:", err)
		os.Exit(2)
	}
	var rep map[string]any
	if err := json.Unmarshal(data, &rep); err != nil {
		fmt.Fprintln(os.Stderr, "govc replay: bad replay file:", err)
		os.Exit(2)
	}
	prop, _ := rep["property"].(string)
	obl, _ := rep["obligation"].(string)
	fmt.Printf("replay: property=%s obligation=%s\n", prop, obl)
	if reason, ok := rep["reason"].(string); ok {
		fmt.Println("recorded reason:", reason)
	}
	still := false
	if obl != "" && obl != "generator" {
		w := load("/repo", "/verif/spec")
		fnName := obl
		if i := strings.Index(obl, "#"); i >= 0 {
			fnName = obl[:i]
		}
		found := false
		var obls []*vc.Obligation
		if fnName == "arity" || strings.HasPrefix(fnName, "arity.") {
			obls = w.AritySweep().Obls
		} else if strings.HasPrefix(fnName, "lemma.") {
			if lm := w.C.Lemmas[strings.TrimPrefix(fnName, "lemma.")]; lm != nil {
				obls = w.VerifyLemma(lm).Obls
			}
		} else {
			re := regexp.MustCompile("^" + regexp.QuoteMeta(fnName) + "$")
			for _, fn := range w.FuncsWithContracts() {
				if re.MatchString(vc.FnDisplay(fn)) {
					obls = append(obls, w.VerifyFunc(fn).Obls...)
				}
			}
		}
		var sel []*vc.Obligation
		for _, o := range obls {
			if o.Name == obl || strings.HasPrefix(o.Name, obl+"/") || strings.HasPrefix(o.Name, obl+"~") {
				sel = append(sel, o)
				found = true
			}
		}
		if !found {
			fmt.Println("the obligation is no longer generated from the current tree (function/contract missing or renamed)")
			still = true
		} else {
			for _, r := range vc.Solve(sel, vc.SolverCfg{TimeoutSec: 30}) {
				fmt.Printf("current tree: %s → %s (%s, %.1fs)\n", r.O.Name, r.Status, r.Solver, r.Seconds)
				if r.Status != vc.Proved {
					still = true
				}
			}
		}
	}
	if rp, ok := rep["replay"].(map[string]any); ok {
		if src, ok := rp["go_test"].(string); ok && src != "" {
			dir, _ := rp["package_dir"].(string)
			run, _ := rp["run"].(string)
			ok2, out := runOverlayTest(dir, src, run)
			fmt.Printf("go test (overlay, %s): failing input reproduced=%v\n%s\n", dir, !ok2, out)
			if !ok2 {
				still = true
			}
		}
	}
	if still {
		fmt.Printf("VIOLATION property=%s replay=%s\n", prop, args[0])
		os.Exit(1)
	}
	fmt.Println("violation not present on the current tree")
}

// runOverlayTest runs an in-package test without writing into /repo.
func runOverlayTest(pkgDir, src, run string) (passed bool, output string) {
	tmp, err := os.MkdirTemp("", "govc-replay-")
	if err != nil {
		return true, err.Error()
	}
	defer os.RemoveAll(tmp)
	testFile := filepath.Join(tmp, "zz_govc_replay_test.go")
	os.WriteFile(testFile, []byte(src), 0o644)
	ov := map[string]map[string]string{"Replace": {filepath.Join("/repo", pkgDir, "zz_govc_replay_test.go"): testFile}}
	ovData, _ := json.Marshal(ov)
	ovFile := filepath.Join(tmp, "overlay.json")
	os.WriteFile(ovFile, ovData, 0o644)
	cmd := exec.Command("go", "test", "-overlay", ovFile, "-vet=off", "-count=1", "-timeout", "60s", "-run", run, "./"+pkgDir)
	cmd.Dir = "/repo"
	cmd.Env = append(os.Environ(), "GOFLAGS=-mod=mod", "GOPROXY=off", "GOSUMDB=off", "GOTOOLCHAIN=local")
	out, err := cmd.CombinedOutput()
	return err == nil, truncate(string(out), 4000)
}
