// Package vc is the verification-condition generator of govc: it executes the
// go/ssa form of the functions under contract symbolically and emits SMT-LIB
// obligations.  See /verif/DESIGN.md §2.
package vc

import (
	"fmt"
	"math/big"
	"strings"
)

// Sort is an SMT-LIB sort, spelled out.
type Sort string

const (
	SInt  Sort = "Int"
	SBool Sort = "Bool"
)

func ArraySort(k, v Sort) Sort { return Sort("(Array " + string(k) + " " + string(v) + ")") }

// IsArray reports whether s is an array sort and returns key/value sorts.
func (s Sort) IsArray() (Sort, Sort, bool) {
	str := string(s)
	if !strings.HasPrefix(str, "(Array ") {
		return "", "", false
	}
	body := str[len("(Array ") : len(str)-1]
	// split at top-level space
	depth := 0
	for i := 0; i < len(body); i++ {
		switch body[i] {
		case '(':
			depth++
		case ')':
			depth--
		case ' ':
			if depth == 0 {
				return Sort(body[:i]), Sort(body[i+1:]), true
			}
		}
	}
	return "", "", false
}

// Term is an SMT term with its sort.
type Term struct {
	S    string
	Sort Sort
}

func (t Term) String() string { return t.S }
func (t Term) IsZero() bool   { return t.S == "" }

var (
	True  = Term{"true", SBool}
	False = Term{"false", SBool}
)

func IntLit(n int64) Term {
	if n < 0 {
		return Term{fmt.Sprintf("(- %d)", -n), SInt}
	}
	return Term{fmt.Sprintf("%d", n), SInt}
}

func BigLit(n *big.Int) Term {
	if n.Sign() < 0 {
		return Term{"(- " + new(big.Int).Neg(n).String() + ")", SInt}
	}
	return Term{n.String(), SInt}
}

func BoolLit(b bool) Term {
	if b {
		return True
	}
	return False
}

func App(f string, sort Sort, args ...Term) Term {
	if len(args) == 0 {
		return Term{f, sort}
	}
	var sb strings.Builder
	sb.WriteByte('(')
	sb.WriteString(f)
	for _, a := range args {
		sb.WriteByte(' ')
		sb.WriteString(a.S)
	}
	sb.WriteByte(')')
	return Term{sb.String(), sort}
}

func Not(a Term) Term {
	switch a.S {
	case "true":
		return False
	case "false":
		return True
	}
	if strings.HasPrefix(a.S, "(not ") {
		return Term{a.S[5 : len(a.S)-1], SBool}
	}
	return App("not", SBool, a)
}

func And(as ...Term) Term {
	var out []Term
	for _, a := range as {
		if a.S == "true" {
			continue
		}
		if a.S == "false" {
			return False
		}
		out = append(out, a)
	}
	switch len(out) {
	case 0:
		return True
	case 1:
		return out[0]
	}
	return App("and", SBool, out...)
}

func Or(as ...Term) Term {
	var out []Term
	for _, a := range as {
		if a.S == "false" {
			continue
		}
		if a.S == "true" {
			return True
		}
		out = append(out, a)
	}
	switch len(out) {
	case 0:
		return False
	case 1:
		return out[0]
	}
	return App("or", SBool, out...)
}

func Implies(a, b Term) Term {
	if a.S == "true" {
		return b
	}
	if a.S == "false" || b.S == "true" {
		return True
	}
	if b.S == "false" {
		return Not(a)
	}
	return App("=>", SBool, a, b)
}

func Iff(a, b Term) Term { return App("=", SBool, a, b) }

func Eq(a, b Term) Term {
	if a.S == b.S {
		return True
	}
	return App("=", SBool, a, b)
}

func Ne(a, b Term) Term { return Not(Eq(a, b)) }

func Ite(c, a, b Term) Term {
	switch c.S {
	case "true":
		return a
	case "false":
		return b
	}
	if a.S == b.S {
		return a
	}
	if a.Sort == SBool {
		if a.S == "true" && b.S == "false" {
			return c
		}
		if a.S == "false" && b.S == "true" {
			return Not(c)
		}
	}
	return App("ite", a.Sort, c, a, b)
}

func Add(a, b Term) Term {
	if b.S == "0" {
		return a
	}
	if a.S == "0" {
		return b
	}
	return App("+", SInt, a, b)
}
func Sub(a, b Term) Term {
	if b.S == "0" {
		return a
	}
	return App("-", SInt, a, b)
}
func Mul(a, b Term) Term { return App("*", SInt, a, b) }
func Lt(a, b Term) Term  { return App("<", SBool, a, b) }
func Le(a, b Term) Term  { return App("<=", SBool, a, b) }
func Gt(a, b Term) Term  { return App(">", SBool, a, b) }
func Ge(a, b Term) Term  { return App(">=", SBool, a, b) }
func Neg(a Term) Term    { return App("-", SInt, a) }

func Sel(arr, idx Term) Term {
	_, v, ok := arr.Sort.IsArray()
	if !ok {
		panic("select on non-array " + arr.S + " : " + string(arr.Sort))
	}
	return App("select", v, arr, idx)
}

func Store(arr, idx, val Term) Term {
	return App("store", arr.Sort, arr, idx, val)
}

// ConstArray returns the constant array with every element v.
func ConstArray(sort Sort, v Term) Term {
	return Term{"((as const " + string(sort) + ") " + v.S + ")", sort}
}

func Forall(vars []Term, body Term, patterns ...[]Term) Term {
	return quant("forall", vars, body, patterns)
}
func Exists(vars []Term, body Term, patterns ...[]Term) Term {
	return quant("exists", vars, body, patterns)
}

func quant(q string, vars []Term, body Term, patterns [][]Term) Term {
	if len(vars) == 0 {
		return body
	}
	if body.S == "true" || body.S == "false" {
		return body
	}
	var sb strings.Builder
	sb.WriteString("(" + q + " (")
	for _, v := range vars {
		sb.WriteString("(" + v.S + " " + string(v.Sort) + ")")
	}
	sb.WriteString(") ")
	if len(patterns) > 0 {
		sb.WriteString("(! " + body.S)
		for _, p := range patterns {
			sb.WriteString(" :pattern (")
			for i, t := range p {
				if i > 0 {
					sb.WriteByte(' ')
				}
				sb.WriteString(t.S)
			}
			sb.WriteString(")")
		}
		sb.WriteString(")")
	} else {
		sb.WriteString(body.S)
	}
	sb.WriteString(")")
	return Term{sb.String(), SBool}
}

// sanitize turns an arbitrary Go-ish name into an SMT simple symbol fragment.
func sanitize(s string) string {
	var sb strings.Builder
	for _, r := range s {
		switch {
		case r >= 'a' && r <= 'z', r >= 'A' && r <= 'Z', r >= '0' && r <= '9', r == '_', r == '.', r == '!', r == '$':
			sb.WriteRune(r)
		case r == '/':
			sb.WriteByte('.')
		case r == '*':
			sb.WriteString("ptr.")
		case r == '[':
			sb.WriteString("_l_")
		case r == ']':
			sb.WriteString("_r_")
		case r == ' ', r == ',', r == '(', r == ')', r == '{', r == '}', r == ';':
			sb.WriteByte('_')
		default:
			sb.WriteString(fmt.Sprintf("_x%x_", r))
		}
	}
	return sb.String()
}
