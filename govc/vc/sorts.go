package vc

import (
	"fmt"
	"go/types"
	"math/big"
	"sort"
	"strings"
	"sync"
)

const modulePrefix = "github.com/jsightapi/jsight-schema-go-library"

// StructInfo describes the SMT datatype generated for a Go struct type.
type StructInfo struct {
	Sort   Sort
	Go     *types.Struct
	Named  string // readable Go name
	Fields []FieldInfo
	Ghost  map[string]int // ghost field name → index in Fields
}

type FieldInfo struct {
	Name   string
	Sort   Sort
	Type   types.Type // nil for ghost fields of spec sort
	Ghost  bool
	Nested bool // struct-typed (lives in a sub-object when the struct is on the heap)
}

// Sorts maps Go types to SMT sorts and accumulates declarations.
type Sorts struct {
	tagMu     sync.Mutex
	decls     []string               // in dependency order
	structs   map[string]*StructInfo // by sort name
	byType    map[string]Sort        // types.TypeString → sort
	boxes     map[Sort]bool
	tags      map[string]int // type string → interface tag
	tagNames  []string
	tagTypes  map[string]types.Type
	tagUsed   map[int]string
	elts      map[Sort]bool
	ghostDecl map[string][]ghostFieldDecl // readable struct name → ghost fields
}

type ghostFieldDecl struct {
	Name string
	Sort Sort
}

func NewSorts() *Sorts {
	s := &Sorts{
		structs:   map[string]*StructInfo{},
		byType:    map[string]Sort{},
		boxes:     map[Sort]bool{},
		tags:      map[string]int{},
		tagTypes:  map[string]types.Type{},
		elts:      map[Sort]bool{},
		ghostDecl: map[string][]ghostFieldDecl{},
	}
	s.decls = append(s.decls,
		"(declare-datatypes ((Slice 0)) (((mk!Slice (sarr Int) (soff Int) (slen Int) (scap Int)))))",
		"(declare-datatypes ((Iface 0)) (((mk!Iface (itag Int) (ival Int)))))",
	)
	return s
}

const (
	SSlice Sort = "Slice"
	SIface Sort = "Iface"
)

func shortPkg(path string) string {
	if path == modulePrefix {
		return "root"
	}
	if strings.HasPrefix(path, modulePrefix+"/") {
		return path[len(modulePrefix)+1:]
	}
	return path
}

func typeName(t types.Type) string {
	return types.TypeString(t, func(p *types.Package) string { return shortPkg(p.Path()) })
}

// SortOf returns the SMT sort for a Go type.
func (s *Sorts) SortOf(t types.Type) Sort {
	key := typeName(t)
	if so, ok := s.byType[key]; ok {
		return so
	}
	so := s.sortOf(t, key)
	s.byType[key] = so
	return so
}

func (s *Sorts) sortOf(t types.Type, key string) Sort {
	switch u := t.Underlying().(type) {
	case *types.Basic:
		switch {
		case u.Info()&types.IsBoolean != 0:
			return SBool
		case u.Info()&types.IsInteger != 0:
			return SInt
		case u.Info()&types.IsString != 0:
			return SInt
		case u.Kind() == types.UnsafePointer, u.Kind() == types.UntypedNil:
			return SInt
		case u.Info()&types.IsFloat != 0:
			return SInt // opaque: floats are outside the subset; values are havoc'd
		}
		return SInt
	case *types.Pointer, *types.Map, *types.Chan, *types.Signature:
		return SInt
	case *types.Slice:
		return SSlice
	case *types.Interface:
		return SIface
	case *types.Array:
		return ArraySort(SInt, s.SortOf(u.Elem()))
	case *types.Struct:
		name := "T!" + sanitize(key)
		if len(name) > 120 {
			name = fmt.Sprintf("T!anon%d", len(s.structs))
		}
		so := Sort(name)
		s.byType[key] = so // for recursion through (impossible) direct nesting
		info := &StructInfo{Sort: so, Go: u, Named: key, Ghost: map[string]int{}}
		for i := 0; i < u.NumFields(); i++ {
			f := u.Field(i)
			fs := s.SortOf(f.Type())
			_, nested := f.Type().Underlying().(*types.Struct)
			info.Fields = append(info.Fields, FieldInfo{Name: f.Name(), Sort: fs, Type: f.Type(), Nested: nested})
		}
		for _, g := range s.ghostDecl[key] {
			info.Ghost[g.Name] = len(info.Fields)
			info.Fields = append(info.Fields, FieldInfo{Name: g.Name, Sort: g.Sort, Ghost: true})
		}
		var sb strings.Builder
		sb.WriteString("(declare-datatypes ((" + name + " 0)) (((mk!" + name)
		for _, f := range info.Fields {
			sb.WriteString(" (" + fieldSel(so, f.Name) + " " + string(f.Sort) + ")")
		}
		sb.WriteString("))))")
		s.decls = append(s.decls, sb.String())
		s.structs[name] = info
		return so
	case *types.Tuple:
		return SInt
	case *types.TypeParam:
		return SInt
	}
	return SInt
}

func fieldSel(so Sort, field string) string { return string(so) + "!" + field }

// DeclareGhostField registers a ghost field for the struct whose readable name
// is structName; must be called before the struct's sort is first requested.
func (s *Sorts) DeclareGhostField(structName, field string, so Sort) {
	s.ghostDecl[structName] = append(s.ghostDecl[structName], ghostFieldDecl{field, so})
}

func (s *Sorts) Struct(so Sort) *StructInfo { return s.structs[string(so)] }

// Zero returns the zero value of a sort.
func (s *Sorts) Zero(so Sort) Term {
	switch so {
	case SInt:
		return IntLit(0)
	case SBool:
		return False
	case SSlice:
		return Term{"(mk!Slice 0 0 0 0)", SSlice}
	case SIface:
		return Term{"(mk!Iface 0 0)", SIface}
	}
	if _, v, ok := so.IsArray(); ok {
		return ConstArray(so, s.Zero(v))
	}
	if info := s.structs[string(so)]; info != nil {
		var args []Term
		for _, f := range info.Fields {
			args = append(args, s.Zero(f.Sort))
		}
		return App("mk!"+string(so), so, args...)
	}
	panic("Zero: unknown sort " + string(so))
}

// MkStruct builds a struct value.
func (s *Sorts) MkStruct(so Sort, fields []Term) Term {
	return App("mk!"+string(so), so, fields...)
}

// FieldOf projects a field from a struct value term.
func (s *Sorts) FieldOf(v Term, idx int) Term {
	info := s.structs[string(v.Sort)]
	if info == nil {
		panic("FieldOf on non-struct sort " + string(v.Sort))
	}
	f := info.Fields[idx]
	// light simplification: projection of a constructor
	if strings.HasPrefix(v.S, "(mk!"+string(v.Sort)+" ") {
		if parts := splitTopLevel(v.S[1 : len(v.S)-1]); len(parts) == len(info.Fields)+1 {
			return Term{parts[idx+1], f.Sort}
		}
	}
	return App(fieldSel(v.Sort, f.Name), f.Sort, v)
}

// WithField returns v with field idx replaced.
func (s *Sorts) WithField(v Term, idx int, nv Term) Term {
	info := s.structs[string(v.Sort)]
	var args []Term
	for i := range info.Fields {
		if i == idx {
			args = append(args, nv)
		} else {
			args = append(args, s.FieldOf(v, i))
		}
	}
	return App("mk!"+string(v.Sort), v.Sort, args...)
}

func splitTopLevel(s string) []string {
	var parts []string
	depth := 0
	start := 0
	inBar := false
	for i := 0; i < len(s); i++ {
		c := s[i]
		if c == '|' {
			inBar = !inBar
		}
		if inBar {
			continue
		}
		switch c {
		case '(':
			depth++
		case ')':
			depth--
		case ' ':
			if depth == 0 {
				if i > start {
					parts = append(parts, s[start:i])
				}
				start = i + 1
			}
		}
	}
	if start < len(s) {
		parts = append(parts, s[start:])
	}
	return parts
}

// Slice helpers.
func MkSlice(arr, off, ln, cp Term) Term { return App("mk!Slice", SSlice, arr, off, ln, cp) }
func sliceProj(sel string, v Term) Term {
	if strings.HasPrefix(v.S, "(mk!Slice ") {
		parts := splitTopLevel(v.S[1 : len(v.S)-1])
		if len(parts) == 5 {
			i := map[string]int{"sarr": 1, "soff": 2, "slen": 3, "scap": 4}[sel]
			return Term{parts[i], SInt}
		}
	}
	return App(sel, SInt, v)
}
func SArr(v Term) Term { return sliceProj("sarr", v) }
func SOff(v Term) Term { return sliceProj("soff", v) }
func SLen(v Term) Term { return sliceProj("slen", v) }
func SCap(v Term) Term { return sliceProj("scap", v) }

func MkIface(tag, val Term) Term { return App("mk!Iface", SIface, tag, val) }
func ITag(v Term) Term {
	if strings.HasPrefix(v.S, "(mk!Iface ") {
		parts := splitTopLevel(v.S[1 : len(v.S)-1])
		if len(parts) == 3 {
			return Term{parts[1], SInt}
		}
	}
	return App("itag", SInt, v)
}
func IVal(v Term) Term {
	if strings.HasPrefix(v.S, "(mk!Iface ") {
		parts := splitTopLevel(v.S[1 : len(v.S)-1])
		if len(parts) == 3 {
			return Term{parts[2], SInt}
		}
	}
	return App("ival", SInt, v)
}

// Tag returns the interface type tag of a concrete Go type.
func (s *Sorts) Tag(t types.Type) int {
	s.tagMu.Lock()
	defer s.tagMu.Unlock()
	key := typeName(t)
	if n, ok := s.tags[key]; ok {
		return n
	}
	// stable numbering: a hash of the type name (so that the SMT text of an
	// obligation does not depend on which other functions were processed before)
	n := stableID(key, func(c int) bool { _, used := s.tagUsed[c]; return used })
	if s.tagUsed == nil {
		s.tagUsed = map[int]string{}
	}
	s.tagUsed[n] = key
	s.tags[key] = n
	s.tagTypes[key] = t
	s.tagNames = append(s.tagNames, key)
	return n
}

// Box converts a value of sort so to the Int payload of an interface.
func (s *Sorts) Box(v Term) Term {
	if v.Sort == SInt {
		return v
	}
	s.boxes[v.Sort] = true
	return App("box!"+sanitize(string(v.Sort)), SInt, v)
}

func (s *Sorts) Unbox(v Term, so Sort) Term {
	if so == SInt {
		return v
	}
	s.boxes[so] = true
	return App("unbox!"+sanitize(string(so)), so, v)
}

// Elt is the element i of the array arr viewed through offset off:
// select(arr, off+i), kept behind a function symbol so that quantifiers over
// element indices have usable triggers.
func (s *Sorts) Elt(arr, off, i Term) Term {
	_, es, ok := arr.Sort.IsArray()
	if !ok {
		panic("Elt on non-array " + string(arr.Sort))
	}
	s.elts[es] = true
	return App("elt!"+sanitize(string(es)), es, arr, off, i)
}

// Decls returns all sort declarations plus box/unbox functions.
func (s *Sorts) Decls() []string {
	out := append([]string{}, s.decls...)
	var es []string
	for e := range s.elts {
		es = append(es, string(e))
	}
	sort.Strings(es)
	for _, e := range es {
		n := sanitize(e)
		out = append(out,
			fmt.Sprintf("(declare-fun elt!%s ((Array Int %s) Int Int) %s)", n, e, e),
			fmt.Sprintf("(assert (forall ((a (Array Int %s)) (o Int) (i Int)) (! (= (elt!%s a o i) (select a (+ o i))) :pattern ((elt!%s a o i)))))", e, n, n),
			// reading through a store yields a read of the underlying array (keeps quantifier triggers alive)
			fmt.Sprintf("(assert (forall ((a (Array Int %s)) (p Int) (v %s) (o Int) (i Int)) (! (= (elt!%s (store a p v) o i) (ite (= p (+ o i)) v (elt!%s a o i))) :pattern ((elt!%s (store a p v) o i)) :pattern ((store a p v) (elt!%s a o i)))))", e, e, n, n, n, n),
		)
	}
	var bs []string
	for b := range s.boxes {
		bs = append(bs, string(b))
	}
	sort.Strings(bs)
	for _, b := range bs {
		n := sanitize(b)
		out = append(out,
			fmt.Sprintf("(declare-fun box!%s (%s) Int)", n, b),
			fmt.Sprintf("(declare-fun unbox!%s (Int) %s)", n, b),
			fmt.Sprintf("(assert (forall ((x %s)) (! (= (unbox!%s (box!%s x)) x) :pattern ((box!%s x)))))", b, n, n, n),
		)
	}
	return out
}

// IntRange returns the inclusive range of an integer Go type (ok=false if t is
// not an integer type).
func IntRange(t types.Type) (lo, hi *big.Int, ok bool) {
	b, isb := t.Underlying().(*types.Basic)
	if !isb || b.Info()&types.IsInteger == 0 {
		return nil, nil, false
	}
	pow := func(n uint) *big.Int { return new(big.Int).Lsh(big.NewInt(1), n) }
	switch b.Kind() {
	case types.Int8:
		return new(big.Int).Neg(pow(7)), new(big.Int).Sub(pow(7), big.NewInt(1)), true
	case types.Int16:
		return new(big.Int).Neg(pow(15)), new(big.Int).Sub(pow(15), big.NewInt(1)), true
	case types.Int32:
		return new(big.Int).Neg(pow(31)), new(big.Int).Sub(pow(31), big.NewInt(1)), true
	case types.Int, types.Int64:
		return new(big.Int).Neg(pow(63)), new(big.Int).Sub(pow(63), big.NewInt(1)), true
	case types.Uint8:
		return big.NewInt(0), big.NewInt(255), true
	case types.Uint16:
		return big.NewInt(0), new(big.Int).Sub(pow(16), big.NewInt(1)), true
	case types.Uint32:
		return big.NewInt(0), new(big.Int).Sub(pow(32), big.NewInt(1)), true
	case types.Uint, types.Uint64, types.Uintptr:
		return big.NewInt(0), new(big.Int).Sub(pow(64), big.NewInt(1)), true
	case types.UntypedInt, types.UntypedRune:
		return nil, nil, false
	}
	return nil, nil, false
}

// stableID hashes a name to a positive 30-bit integer, probing on collision.
func stableID(name string, used func(int) bool) int {
	h := uint32(2166136261)
	for i := 0; i < len(name); i++ {
		h ^= uint32(name[i])
		h *= 16777619
	}
	n := int(h%1000000000) + 1000
	for used(n) {
		n++
	}
	return n
}
