package vc

import (
	"fmt"
	"go/constant"
	"go/token"
	"go/types"
	"math/big"
	"sort"
	"strings"

	"golang.org/x/tools/go/ssa"
)

func constantString(c *ssa.Const) string { return constant.StringVal(c.Value) }

// ---- memory access ----

// structRefLoad reads a whole struct stored at heap address ref.
func (f *Frame) structRefLoad(h *Heap, t types.Type, ref Term) Term {
	so := f.w.Sorts.SortOf(t)
	return loadStruct(f.w, h, so, t.Underlying().(*types.Struct), ref)
}

// structRefStore writes a whole struct value to heap address ref.
func (f *Frame) structRefStore(h *Heap, t types.Type, ref Term, v Term) *Heap {
	so := f.w.Sorts.SortOf(t)
	info := f.w.Sorts.Struct(so)
	for i, fi := range info.Fields {
		fv := f.w.Sorts.FieldOf(v, i)
		if fi.Nested {
			h = f.structRefStore(h, fi.Type, subRef(so, fi.Name, ref), fv)
			continue
		}
		comp := fieldComp(so, fi.Name)
		cs := ArraySort(SInt, fi.Sort)
		h = h.Set(comp, f.vc.Define("h."+comp, Store(h.Comp(comp, cs), ref, fv)))
	}
	return h
}

func (f *Frame) locRead(h *Heap, l *Loc) Term {
	var root Term
	switch l.Kind {
	case locLocal:
		root = h.Comp(l.Comp, l.CompSort)
	case locField, locCell:
		// a value just stored at this very location keeps its identity (closure references)
		root = f.vc.SelectThrough(h.Comp(l.Comp, l.CompSort), l.Base)
	case locElem:
		root = f.w.Sorts.Elt(Sel(h.Comp(l.Comp, l.CompSort), l.Base), l.Off, l.Idx)
	}
	for _, p := range l.Path {
		root = f.w.Sorts.FieldOf(root, p)
	}
	return root
}

func (f *Frame) locWrite(h *Heap, l *Loc, v Term) *Heap {
	var root Term
	switch l.Kind {
	case locLocal:
		root = h.Comp(l.Comp, l.CompSort)
	case locField, locCell:
		root = Sel(h.Comp(l.Comp, l.CompSort), l.Base)
	case locElem:
		root = f.w.Sorts.Elt(Sel(h.Comp(l.Comp, l.CompSort), l.Base), l.Off, l.Idx)
	}
	nv := f.updatePath(root, l.Path, v)
	var nc Term
	switch l.Kind {
	case locLocal:
		nc = nv
	case locField, locCell:
		nc = Store(h.Comp(l.Comp, l.CompSort), l.Base, nv)
	case locElem:
		c := h.Comp(l.Comp, l.CompSort)
		nc = Store(c, l.Base, Store(Sel(c, l.Base), Add(l.Off, l.Idx), nv))
	}
	return h.Set(l.Comp, f.vc.Define("h."+l.Comp, nc))
}

func (f *Frame) updatePath(root Term, path []int, v Term) Term {
	if len(path) == 0 {
		return v
	}
	inner := f.updatePath(f.w.Sorts.FieldOf(root, path[0]), path[1:], v)
	return f.w.Sorts.WithField(root, path[0], inner)
}

// tryLoad reads the pointee (of Go type t) of pointer value p; ok=false if unsupported.
func (f *Frame) tryLoad(p Val, t types.Type, h *Heap) (Term, bool) {
	if p.Loc != nil {
		return f.locRead(h, p.Loc), true
	}
	switch t.Underlying().(type) {
	case *types.Struct:
		return f.structRefLoad(h, t, p.T), true
	case *types.Array:
		a := t.Underlying().(*types.Array)
		es := f.w.Sorts.SortOf(a.Elem())
		return Sel(h.Comp(memCompT(a.Elem()), memSort(es)), p.T), true
	}
	so := f.w.Sorts.SortOf(t)
	return f.vc.SelectThrough(h.Comp(cellComp(so), ArraySort(SInt, so)), p.T), true
}

func (f *Frame) store(p Val, t types.Type, v Term, h *Heap) *Heap {
	if p.Loc != nil {
		return f.locWrite(h, p.Loc, v)
	}
	switch u := t.Underlying().(type) {
	case *types.Struct:
		return f.structRefStore(h, t, p.T, v)
	case *types.Array:
		es := f.w.Sorts.SortOf(u.Elem())
		comp := memCompT(u.Elem())
		return h.Set(comp, f.vc.Define("h."+comp, Store(h.Comp(comp, memSort(es)), p.T, v)))
	}
	so := f.w.Sorts.SortOf(t)
	comp := cellComp(so)
	return h.Set(comp, f.vc.Define("h."+comp, Store(h.Comp(comp, ArraySort(SInt, so)), p.T, v)))
}

// allocRef returns a fresh address.
func (f *Frame) allocRef(st State, hint string) (Term, *Heap) {
	a := st.Heap.Comp(allocComp, SInt)
	r := f.vc.Define(f.label0()+hint, Add(a, IntLit(1)))
	return r, st.Heap.Set(allocComp, r)
}

func (f *Frame) safety(kind string, st State, goal Term, info string) {
	if goal.S == "true" {
		// still count the site so that ordinals stay stable
		f.vc.Ordinal(f.label + "#" + kind)
		return
	}
	n := f.vc.Ordinal(f.label + "#" + kind)
	f.vc.Oblige(f.label, kind, fmt.Sprintf("%d", n), st.PC, goal, info)
	// after the check, execution continues only if it passed
	f.vc.Assume(Implies(st.PC, goal))
}

func (f *Frame) pos(ins ssa.Instruction) string {
	p := f.w.Fset.Position(ins.Pos())
	if !p.IsValid() {
		return ""
	}
	return fmt.Sprintf("%s:%d", shortPath(p.Filename), p.Line)
}

func shortPath(p string) string {
	if len(p) > 6 && p[:6] == "/repo/" {
		return p[6:]
	}
	return p
}

// ---- instruction step ----

// step executes one instruction; term reports that the block ended.
func (f *Frame) step(ins ssa.Instruction, st State, in map[*ssa.BasicBlock][]edge) (State, bool) {
	vc := f.vc
	b := ins.Block()
	switch ins := ins.(type) {
	case *ssa.DebugRef:
		return st, false
	case *ssa.If:
		c := f.val(ins.Cond).T
		c = vc.Define("c", c)
		f.edgeTo(b, b.Succs[0], State{vc.Define("pc", And(st.PC, c)), st.Heap}, in)
		f.edgeTo(b, b.Succs[1], State{vc.Define("pc", And(st.PC, Not(c))), st.Heap}, in)
		return st, true
	case *ssa.Jump:
		f.edgeTo(b, b.Succs[0], st, in)
		return st, true
	case *ssa.Return:
		var res []Val
		for _, r := range ins.Results {
			res = append(res, f.val(r))
		}
		f.exit(Exit{PC: st.PC, Heap: st.Heap, Results: res})
		return st, true
	case *ssa.Panic:
		pv := f.val(ins.X).T
		f.notePanic(ins, st)
		f.exit(Exit{Panic: true, PC: st.PC, Heap: st.Heap, PV: pv})
		return st, true
	case *ssa.RunDefers:
		return f.runDefers(st, false), false
	case *ssa.Defer:
		f.defers = append(f.defers, ins)
		f.deferPCs = append(f.deferPCs, st.PC)
		if len(f.inLoopOf[b]) > 0 {
			f.fail("defer inside a loop is outside the subset")
			vc.Outside["defer in loop"] = true
		}
		return st, false
	case *ssa.Store:
		pt := ins.Addr.Type().Underlying().(*types.Pointer)
		p := f.val(ins.Addr)
		f.nilCheck(p, st, ins)
		f.guardCheck(p, st, true, ins)
		f.fieldFuncStoreCheck(ins)
		st.Heap = f.store(p, pt.Elem(), f.val(ins.Val).T, st.Heap)
		return st, false
	case *ssa.MapUpdate:
		return f.mapUpdate(ins, st), false
	case *ssa.Go, *ssa.Send:
		f.fail("concurrency instruction %T is outside the subset", ins)
		vc.Outside["goroutines/channels"] = true
		return st, false
	case *ssa.Call:
		nst, v := f.call(ins, st)
		f.env[ins] = f.defineVal(ins.Name(), v)
		return nst, false
	case ssa.Value:
		v, nst := f.value(ins, st)
		f.env[ins] = f.defineVal(ins.Name(), v)
		return nst, false
	}
	f.fail("unsupported instruction %T", ins)
	return st, false
}

func (f *Frame) defineVal(name string, v Val) Val {
	if len(v.Tup) > 0 {
		for i := range v.Tup {
			v.Tup[i] = f.defineVal(fmt.Sprintf("%s.%d", name, i), v.Tup[i])
		}
		return v
	}
	if v.Loc != nil {
		return v
	}
	v.T = f.vc.Define(f.label0()+name, v.T)
	return v
}

func (f *Frame) exit(e Exit) {
	if e.PC.S == "false" {
		return
	}
	if e.Panic && len(f.defers) > 0 {
		// deferred calls run on the panic path too; one of them may recover
		ctx := &deferCtx{panicking: true, pv: e.PV}
		// a panic value is never the nil interface
		f.vc.Assume(Implies(e.PC, Ne(ITag(e.PV), IntLit(0))))
		st := f.runDefersCtx(State{e.PC, e.Heap}, ctx)
		if st.PC.S == "false" {
			return
		}
		if ctx.recovered {
			if f.fn.Recover == nil {
				f.fail("recover() without a recover block")
				return
			}
			// control resumes in the recover block, which returns the named results
			saved, savedPCs := f.defers, f.deferPCs
			f.defers, f.deferPCs = nil, nil
			f.runRecoverBlock(st)
			f.defers, f.deferPCs = saved, savedPCs
			return
		}
		e.PC, e.Heap = st.PC, st.Heap
	}
	f.exits = append(f.exits, e)
}

// runRecoverBlock executes fn.Recover (loads of the named results + return).
func (f *Frame) runRecoverBlock(st State) {
	b := f.fn.Recover
	in := map[*ssa.BasicBlock][]edge{}
	for _, ins := range b.Instrs {
		var term bool
		st, term = f.step(ins, st, in)
		if term {
			return
		}
	}
}

func (f *Frame) notePanic(ins *ssa.Panic, st State) {
	// explicit panic with a string constant operand = "cannot happen" marker
	if mi, ok := ins.X.(*ssa.MakeInterface); ok {
		if c, ok := mi.X.(*ssa.Const); ok && c.Value != nil && c.Value.Kind() == constant.String {
			n := f.vc.Ordinal(f.label + "#unreach")
			if f.fc == nil || !f.fc.MayPanic {
				f.vc.Oblige(f.label, "unreach", fmt.Sprintf("%d", n), st.PC, False,
					fmt.Sprintf("panic(%q) at %s must be unreachable", constant.StringVal(c.Value), f.pos(ins)))
			}
		}
	}
}

func (f *Frame) nilCheck(p Val, st State, ins ssa.Instruction) {
	if p.Loc != nil {
		return
	}
	f.safety("nil", st, Ne(p.T, IntLit(0)), "nil dereference at "+f.pos(ins))
}

func (f *Frame) guardCheck(p Val, st State, write bool, ins ssa.Instruction) {
	if p.Loc == nil || p.Loc.Guard == nil {
		return
	}
	g := p.Loc.Guard
	cl := g.Read
	kind := "guard-read"
	if write {
		cl = g.Write
		kind = "guard-write"
	}
	if cl == nil {
		return
	}
	env := &SpecEnv{W: f.w, Vars: map[string]SVal{}, Heap: st.Heap, Old: f.entryHeap, Scope: g.ScopePkg, Side: f.vc}
	t, err := f.w.ResolveType(g.Struct, g.ScopePkg)
	if err != nil {
		f.fail("guard: %v", err)
		return
	}
	env.Vars["self"] = SVal{T: p.Loc.GuardRef, Go: types.NewPointer(t)}
	goal, err := env.EvalBool(*cl)
	if err != nil {
		f.fail("guard: %v", err)
		return
	}
	n := f.vc.Ordinal(f.label + "#" + kind)
	f.vc.Oblige(f.label, kind, fmt.Sprintf("%s.%d", g.Field, n), st.PC, goal, cl.Src+" at "+f.pos(ins))
}

// wrap reduces a mathematical integer to the range of Go type t, given that the
// operands were in range and the operation was + or - (single wrap), or does a
// full modular reduction when full is set.
func wrapInt(t types.Type, v Term, full bool) Term {
	lo, hi, ok := IntRange(t)
	if !ok {
		return v
	}
	size := new(big.Int).Add(new(big.Int).Sub(hi, lo), big.NewInt(1))
	if full {
		if lo.Sign() == 0 {
			return App("mod", SInt, v, BigLit(size))
		}
		// signed: ((v - lo) mod size) + lo
		return Add(App("mod", SInt, Sub(v, BigLit(lo)), BigLit(size)), BigLit(lo))
	}
	return Ite(Gt(v, BigLit(hi)), Sub(v, BigLit(size)), Ite(Lt(v, BigLit(lo)), Add(v, BigLit(size)), v))
}

func isUnsigned(t types.Type) bool {
	b, ok := t.Underlying().(*types.Basic)
	return ok && b.Info()&types.IsUnsigned != 0
}

func isString(t types.Type) bool {
	b, ok := t.Underlying().(*types.Basic)
	return ok && b.Info()&types.IsString != 0
}

func isInteger(t types.Type) bool {
	b, ok := t.Underlying().(*types.Basic)
	return ok && b.Info()&types.IsInteger != 0
}

func isFloat(t types.Type) bool {
	b, ok := t.Underlying().(*types.Basic)
	return ok && b.Info()&(types.IsFloat|types.IsComplex) != 0
}

func constInt(v ssa.Value) (*big.Int, bool) {
	c, ok := v.(*ssa.Const)
	if !ok || c.Value == nil || c.Value.Kind() != constant.Int {
		return nil, false
	}
	n, ok := new(big.Int).SetString(c.Value.ExactString(), 10)
	return n, ok
}

func (f *Frame) binop(ins *ssa.BinOp, st State) Term {
	x, y := f.val(ins.X).T, f.val(ins.Y).T
	t := ins.X.Type()
	switch ins.Op {
	case token.EQL, token.NEQ:
		var eq Term
		switch {
		case isString(t):
			// strings are values: two different strings differ in length or in some byte
			// (instance of extensionality for this comparison; sdiff! is its Skolem witness)
			strExt := func() {
				d := App("sdiff!", SInt, x, y)
				f.vc.Assume(Implies(Not(Eq(x, y)), Or(Not(Eq(StrLen(x), StrLen(y))),
					And(Le(IntLit(0), d), Lt(d, StrLen(x)), Not(Eq(StrAt(x, d), StrAt(y, d)))))))
			}
			if c, ok := ins.Y.(*ssa.Const); ok && c.Value != nil {
				eq = strEqLit(x, constantString(c))
			} else if c, ok := ins.X.(*ssa.Const); ok && c.Value != nil {
				eq = strEqLit(y, constantString(c))
			} else if pa, ok := f.vc.strProv[x.S]; ok {
				if pb, ok := f.vc.strProv[y.S]; ok {
					// string(a) == string(b)  ⟺  a and b hold the same bytes
					i := Term{"i", SInt}
					eq = And(Eq(pa.n, pb.n), Forall([]Term{i}, Implies(And(Le(IntLit(0), i), Lt(i, pa.n)),
						Eq(f.w.Sorts.Elt(pa.arr, pa.off, i), f.w.Sorts.Elt(pb.arr, pb.off, i))),
						[]Term{f.w.Sorts.Elt(pa.arr, pa.off, i)}, []Term{f.w.Sorts.Elt(pb.arr, pb.off, i)}))
				} else {
					strExt()
					eq = Eq(x, y)
				}
			} else {
				strExt()
				eq = Eq(x, y)
			}
		case x.Sort == SBool:
			eq = Iff(x, y)
		case x.Sort == SIface && isNilConst(ins.Y):
			eq = Eq(ITag(x), IntLit(0))
		case x.Sort == SIface && isNilConst(ins.X):
			eq = Eq(ITag(y), IntLit(0))
		case x.Sort == SSlice && isNilConst(ins.Y):
			eq = Eq(SArr(x), IntLit(0))
		case x.Sort == SSlice && isNilConst(ins.X):
			eq = Eq(SArr(y), IntLit(0))
		default:
			eq = Eq(x, y)
		}
		if ins.Op == token.NEQ {
			return Not(eq)
		}
		return eq
	}
	if isFloat(t) {
		f.vc.Outside["floating-point arithmetic"] = true
		return f.vc.Fresh("float", f.w.Sorts.SortOf(ins.Type()))
	}
	if isString(t) {
		switch ins.Op {
		case token.ADD:
			// concatenation: fresh string with known length and contents
			r := f.vc.Fresh("concat", SInt)
			f.vc.Assume(Eq(StrLen(r), Add(StrLen(x), StrLen(y))))
			i := Term{"i", SInt}
			f.vc.Assume(Forall([]Term{i}, And(
				Implies(And(Le(IntLit(0), i), Lt(i, StrLen(x))), Eq(StrAt(r, i), StrAt(x, i))),
				Implies(And(Le(StrLen(x), i), Lt(i, StrLen(r))), Eq(StrAt(r, i), StrAt(y, Sub(i, StrLen(x)))))),
				[]Term{StrAt(r, i)}))
			return r
		default:
			f.vc.Outside["string ordering"] = true
			return f.vc.Fresh("strcmp", SBool)
		}
	}
	switch ins.Op {
	case token.LSS:
		return Lt(x, y)
	case token.LEQ:
		return Le(x, y)
	case token.GTR:
		return Gt(x, y)
	case token.GEQ:
		return Ge(x, y)
	case token.ADD:
		return wrapInt(ins.Type(), Add(x, y), false)
	case token.SUB:
		return wrapInt(ins.Type(), Sub(x, y), false)
	case token.MUL:
		return wrapInt(ins.Type(), Mul(x, y), true)
	case token.QUO, token.REM:
		f.safety("div", st, Ne(y, IntLit(0)), "division by zero at "+f.pos(ins))
		// Go truncates toward zero
		q := Ite(Ge(x, IntLit(0)),
			Ite(Gt(y, IntLit(0)), App("div", SInt, x, y), Neg(App("div", SInt, x, Neg(y)))),
			Ite(Gt(y, IntLit(0)), Neg(App("div", SInt, Neg(x), y)), App("div", SInt, Neg(x), Neg(y))))
		if isUnsigned(t) {
			q = App("div", SInt, x, y)
		}
		if ins.Op == token.QUO {
			return wrapInt(ins.Type(), q, false)
		}
		if isUnsigned(t) {
			return App("mod", SInt, x, y)
		}
		return Sub(x, Mul(q, y))
	case token.SHL:
		if n, ok := constInt(ins.Y); ok && n.IsInt64() && n.Int64() < 64 {
			return wrapInt(ins.Type(), Mul(x, BigLit(new(big.Int).Lsh(big.NewInt(1), uint(n.Int64())))), true)
		}
	case token.SHR:
		if n, ok := constInt(ins.Y); ok && n.IsInt64() && n.Int64() < 64 {
			// floor division is arithmetic shift for signed, logical for unsigned
			return App("div", SInt, x, BigLit(new(big.Int).Lsh(big.NewInt(1), uint(n.Int64()))))
		}
	case token.AND:
		if n, ok := constInt(ins.Y); ok && isUnsigned(t) {
			m := new(big.Int).Add(n, big.NewInt(1))
			if m.BitLen() > 0 && new(big.Int).And(m, n).Sign() == 0 { // n = 2^k-1
				return App("mod", SInt, x, BigLit(m))
			}
		}
	case token.OR, token.XOR, token.AND_NOT:
	}
	f.vc.Outside["bit operation "+ins.Op.String()] = true
	r := f.vc.Fresh("bitop", SInt)
	for _, fact := range f.typeFacts(ins.Type(), r, st.Heap) {
		f.vc.Assume(fact)
	}
	return r
}

func isNilConst(v ssa.Value) bool {
	c, ok := v.(*ssa.Const)
	return ok && c.Value == nil
}

// value evaluates a value-producing, non-call instruction.
func (f *Frame) value(ins ssa.Value, st State) (Val, State) {
	vc := f.vc
	switch ins := ins.(type) {
	case *ssa.BinOp:
		return Val{T: f.binop(ins, st)}, st
	case *ssa.UnOp:
		switch ins.Op {
		case token.NOT:
			return Val{T: Not(f.val(ins.X).T)}, st
		case token.SUB:
			if isFloat(ins.Type()) {
				vc.Outside["floating-point arithmetic"] = true
				return Val{T: vc.Fresh("float", SInt)}, st
			}
			return Val{T: wrapInt(ins.Type(), Neg(f.val(ins.X).T), false)}, st
		case token.MUL: // load
			if g, ok := ins.X.(*ssa.Global); ok && g.Pkg != nil && g.Pkg.Pkg.Path() == "io" && g.Name() == "EOF" {
				return Val{T: f.ioEOF()}, st
			}
			p := f.val(ins.X)
			f.nilCheck(p, st, ins)
			f.guardCheck(p, st, false, ins)
			t, ok := f.tryLoad(p, ins.Type(), st.Heap)
			if !ok {
				f.fail("unsupported load of %s", typeName(ins.Type()))
				t = f.w.Sorts.Zero(f.w.Sorts.SortOf(ins.Type()))
			}
			t = vc.Define(f.label0()+ins.Name(), t)
			f.assumeType(ins.Type(), t, st)
			return Val{T: t}, st
		case token.XOR:
			vc.Outside["bit operation ^"] = true
			r := vc.Fresh("bitop", SInt)
			f.assumeType(ins.Type(), r, st)
			return Val{T: r}, st
		case token.ARROW:
			f.fail("channel receive is outside the subset")
			vc.Outside["goroutines/channels"] = true
			return Val{T: f.w.Sorts.Zero(f.w.Sorts.SortOf(ins.Type()))}, st
		}
	case *ssa.Alloc:
		t := ins.Type().Underlying().(*types.Pointer).Elem()
		if _, isArr := t.Underlying().(*types.Array); !ins.Heap && !isArr {
			// non-escaping local variable: lives outside the heap
			so := f.w.Sorts.SortOf(t)
			vc.n++
			comp := fmt.Sprintf("L!%s%s!%d", f.label0(), ins.Name(), vc.n)
			vc.compSorts[comp] = so
			st.Heap = st.Heap.Set(comp, f.w.Sorts.Zero(so))
			return Val{Loc: &Loc{Kind: locLocal, Comp: comp, CompSort: so, Sort: so, Root: so, Type: t}}, st
		}
		r, h := f.allocRef(st, ins.Name())
		st.Heap = h
		switch u := t.Underlying().(type) {
		case *types.Struct:
			st.Heap = f.structRefStore(st.Heap, t, r, f.w.Sorts.Zero(f.w.Sorts.SortOf(t)))
			return Val{T: r}, st
		case *types.Array:
			es := f.w.Sorts.SortOf(u.Elem())
			comp := memCompT(u.Elem())
			st.Heap = st.Heap.Set(comp, vc.Define("h."+comp, Store(st.Heap.Comp(comp, memSort(es)), r, f.zeroArr(es))))
			return Val{T: r}, st
		}
		so := f.w.Sorts.SortOf(t)
		comp := cellComp(so)
		st.Heap = st.Heap.Set(comp, vc.Define("h."+comp, Store(st.Heap.Comp(comp, ArraySort(SInt, so)), r, f.w.Sorts.Zero(so))))
		if privateCell(ins) {
			// a variable captured only by closures that this function defers or calls
			// itself: no other function can reach its cell, so `modifies *` leaves it alone
			vc.privateCells = append(vc.privateCells, privCell{ref: r, comp: comp, sort: ArraySort(SInt, so)})
		}
		return Val{T: r}, st
	case *ssa.FieldAddr:
		p := f.val(ins.X)
		pt := ins.X.Type().Underlying().(*types.Pointer).Elem()
		so := f.w.Sorts.SortOf(pt)
		info := f.w.Sorts.Struct(so)
		fi := info.Fields[ins.Field]
		if p.Loc != nil {
			l := *p.Loc
			l.Path = append(append([]int{}, l.Path...), ins.Field)
			l.Sort = fi.Sort
			l.Type = fi.Type
			return Val{Loc: &l}, st
		}
		f.safety("nil", st, Ne(p.T, IntLit(0)), "nil dereference (field "+fi.Name+") at "+f.pos(ins))
		if fi.Nested {
			return Val{T: subRef(so, fi.Name, p.T)}, st
		}
		l := &Loc{Kind: locField, Comp: fieldComp(so, fi.Name), CompSort: ArraySort(SInt, fi.Sort), Base: p.T, Sort: fi.Sort, Root: fi.Sort, Type: fi.Type}
		if g := f.w.guardFor(pt, fi.Name); g != nil {
			l.Guard, l.GuardRef = g, p.T
		}
		return Val{Loc: l}, st
	case *ssa.Field:
		x := f.val(ins.X).T
		return Val{T: f.w.Sorts.FieldOf(x, ins.Field)}, st
	case *ssa.IndexAddr:
		x := f.val(ins.X)
		i := f.val(ins.Index).T
		switch u := ins.X.Type().Underlying().(type) {
		case *types.Slice:
			es := f.w.Sorts.SortOf(u.Elem())
			f.safety("bounds", st, And(Le(IntLit(0), i), Lt(i, SLen(x.T))), "index out of range at "+f.pos(ins))
			return Val{Loc: &Loc{Kind: locElem, Comp: memCompT(u.Elem()), CompSort: memSort(es), Base: SArr(x.T), Idx: i, Off: SOff(x.T), Sort: es, Root: es, Type: u.Elem()}}, st
		case *types.Pointer:
			a := u.Elem().Underlying().(*types.Array)
			es := f.w.Sorts.SortOf(a.Elem())
			if x.Loc != nil {
				f.fail("indexing an array inside a struct is outside the subset")
				vc.Outside["array field"] = true
			}
			f.safety("nil", st, Ne(x.T, IntLit(0)), "nil array pointer at "+f.pos(ins))
			f.safety("bounds", st, And(Le(IntLit(0), i), Lt(i, IntLit(a.Len()))), "index out of range at "+f.pos(ins))
			return Val{Loc: &Loc{Kind: locElem, Comp: memCompT(a.Elem()), CompSort: memSort(es), Base: x.T, Idx: i, Off: IntLit(0), Sort: es, Root: es, Type: a.Elem()}}, st
		}
	case *ssa.Index:
		x := f.val(ins.X).T
		i := f.val(ins.Index).T
		switch u := ins.X.Type().Underlying().(type) {
		case *types.Array:
			f.safety("bounds", st, And(Le(IntLit(0), i), Lt(i, IntLit(u.Len()))), "index out of range at "+f.pos(ins))
			return Val{T: Sel(x, i)}, st
		case *types.Basic: // string
			f.safety("bounds", st, And(Le(IntLit(0), i), Lt(i, StrLen(x))), "string index out of range at "+f.pos(ins))
			return Val{T: StrAt(x, i)}, st
		}
	case *ssa.Lookup:
		return f.lookup(ins, st), st
	case *ssa.Slice:
		return f.sliceOp(ins, st)
	case *ssa.Phi:
		return f.env[ins], st
	case *ssa.Extract:
		t := f.val(ins.Tuple)
		if ins.Index < len(t.Tup) {
			return t.Tup[ins.Index], st
		}
		f.fail("extract from non-tuple")
	case *ssa.MakeInterface:
		x := f.val(ins.X)
		if x.Loc != nil {
			f.fail("interior pointer stored in interface is outside the subset")
			vc.Outside["interior pointer escapes"] = true
			return Val{T: f.w.Sorts.Zero(SIface)}, st
		}
		return Val{T: MkIface(IntLit(int64(f.w.Sorts.Tag(ins.X.Type()))), f.w.Sorts.Box(x.T))}, st
	case *ssa.ChangeInterface:
		return f.val(ins.X), st
	case *ssa.ChangeType:
		return f.val(ins.X), st
	case *ssa.Convert:
		return f.convert(ins, st)
	case *ssa.TypeAssert:
		return f.typeAssert(ins, st), st
	case *ssa.MakeSlice:
		n := f.val(ins.Len).T
		c := f.val(ins.Cap).T
		f.safety("makeslice", st, And(Le(IntLit(0), n), Le(n, c)), "makeslice: len/cap out of range at "+f.pos(ins))
		r, h := f.allocRef(st, ins.Name())
		st.Heap = h
		es := f.w.Sorts.SortOf(ins.Type().Underlying().(*types.Slice).Elem())
		comp := memCompT(ins.Type().Underlying().(*types.Slice).Elem())
		st.Heap = st.Heap.Set(comp, vc.Define("h."+comp, Store(st.Heap.Comp(comp, memSort(es)), r, f.zeroArr(es))))
		return Val{T: MkSlice(r, IntLit(0), n, c)}, st
	case *ssa.MakeMap:
		mt := ins.Type().Underlying().(*types.Map)
		ks, vs := f.w.Sorts.SortOf(mt.Key()), f.w.Sorts.SortOf(mt.Elem())
		r, h := f.allocRef(st, ins.Name())
		st.Heap = h
		md, mv := mapDomComp(ks, vs), mapValComp(ks, vs)
		mds := ArraySort(SInt, ArraySort(ks, SBool))
		mvs := ArraySort(SInt, ArraySort(ks, vs))
		st.Heap = st.Heap.Set(md, vc.Define("h."+md, Store(st.Heap.Comp(md, mds), r, ConstArray(ArraySort(ks, SBool), False))))
		st.Heap = st.Heap.Set(mv, vc.Define("h."+mv, Store(st.Heap.Comp(mv, mvs), r, ConstArray(ArraySort(ks, vs), f.w.Sorts.Zero(vs)))))
		st.Heap = st.Heap.Set(mapSizeComp(ks, vs), vc.Define("h.MS", Store(st.Heap.Comp(mapSizeComp(ks, vs), ArraySort(SInt, SInt)), r, IntLit(0))))
		return Val{T: r}, st
	case *ssa.MakeClosure:
		return f.makeClosure(ins, st)
	case *ssa.Range:
		return f.rangeInit(ins, st)
	case *ssa.Next:
		return f.rangeNext(ins, st)
	case *ssa.MultiConvert, *ssa.SliceToArrayPointer, *ssa.Select, *ssa.MakeChan:
	}
	f.fail("unsupported value instruction %T (%s)", ins, ins.String())
	vc.Outside[fmt.Sprintf("instruction %T", ins)] = true
	so := f.w.Sorts.SortOf(ins.Type())
	return Val{T: vc.Fresh("unsupported", so)}, st
}

func (f *Frame) sliceOp(ins *ssa.Slice, st State) (Val, State) {
	vc := f.vc
	x := f.val(ins.X)
	lo := IntLit(0)
	if ins.Low != nil {
		lo = f.val(ins.Low).T
	}
	switch u := ins.X.Type().Underlying().(type) {
	case *types.Slice:
		hi := SLen(x.T)
		if ins.High != nil {
			hi = f.val(ins.High).T
		}
		mx := SCap(x.T)
		if ins.Max != nil {
			mx = f.val(ins.Max).T
			f.safety("bounds", st, And(Le(IntLit(0), lo), Le(lo, hi), Le(hi, mx), Le(mx, SCap(x.T))), "slice bounds out of range at "+f.pos(ins))
		} else {
			f.safety("bounds", st, And(Le(IntLit(0), lo), Le(lo, hi), Le(hi, SCap(x.T))), "slice bounds out of range at "+f.pos(ins))
		}
		off := SOff(x.T)
		noff := Add(off, lo)
		if lo.S != "0" {
			// the two views of the same backing array (consequences of elt's definition,
			// stated so that element triggers carry over between the views)
			es := f.w.Sorts.SortOf(u.Elem())
			offA := vc.Alias("off", off)
			noffA := vc.Alias("noff", noff)
			loA := vc.Alias("lo", lo)
			a := Term{"a", ArraySort(SInt, es)}
			i := Term{"i", SInt}
			vc.Assume(Forall([]Term{a, i}, Eq(f.w.Sorts.Elt(a, noffA, i), f.w.Sorts.Elt(a, offA, Add(loA, i))), []Term{f.w.Sorts.Elt(a, noffA, i)}))
			if feedsAppendOrCopy(ins) {
				vc.Assume(Forall([]Term{a, i}, Eq(f.w.Sorts.Elt(a, offA, i), f.w.Sorts.Elt(a, noffA, Sub(i, loA))), []Term{f.w.Sorts.Elt(a, offA, i)}))
			}
			return Val{T: MkSlice(SArr(x.T), noffA, Sub(hi, lo), Sub(mx, lo))}, st
		}
		return Val{T: MkSlice(SArr(x.T), noff, Sub(hi, lo), Sub(mx, lo))}, st
	case *types.Basic: // string
		hi := StrLen(x.T)
		if ins.High != nil {
			hi = f.val(ins.High).T
		}
		f.safety("bounds", st, And(Le(IntLit(0), lo), Le(lo, hi), Le(hi, StrLen(x.T))), "string slice bounds out of range at "+f.pos(ins))
		r := vc.Fresh("substr", SInt)
		i := Term{"i", SInt}
		vc.Assume(Implies(st.PC, Eq(StrLen(r), Sub(hi, lo))))
		vc.Assume(Forall([]Term{i}, Implies(And(st.PC, Le(IntLit(0), i), Lt(i, Sub(hi, lo))), Eq(StrAt(r, i), StrAt(x.T, Add(lo, i)))), []Term{StrAt(r, i)}))
		return Val{T: r}, st
	case *types.Pointer:
		a := u.Elem().Underlying().(*types.Array)
		hi := IntLit(a.Len())
		if ins.High != nil {
			hi = f.val(ins.High).T
		}
		f.safety("nil", st, Ne(x.T, IntLit(0)), "nil array pointer at "+f.pos(ins))
		f.safety("bounds", st, And(Le(IntLit(0), lo), Le(lo, hi), Le(hi, IntLit(a.Len()))), "slice bounds out of range at "+f.pos(ins))
		return Val{T: MkSlice(x.T, lo, Sub(hi, lo), Sub(IntLit(a.Len()), lo))}, st
	}
	f.fail("unsupported slice operand %s", typeName(ins.X.Type()))
	return Val{T: f.w.Sorts.Zero(SSlice)}, st
}

func (f *Frame) convert(ins *ssa.Convert, st State) (Val, State) {
	vc := f.vc
	x := f.val(ins.X)
	from, to := ins.X.Type(), ins.Type()
	switch {
	case isInteger(from) && isInteger(to):
		flo, fhi, _ := IntRange(from)
		tlo, thi, ok := IntRange(to)
		if !ok || flo == nil {
			return x, st
		}
		if flo.Cmp(tlo) >= 0 && fhi.Cmp(thi) <= 0 {
			return x, st
		}
		// same width sign change → single wrap; narrowing → full reduction
		fw := new(big.Int).Sub(fhi, flo)
		tw := new(big.Int).Sub(thi, tlo)
		return Val{T: wrapInt(to, x.T, fw.Cmp(tw) > 0)}, st
	case isFloat(from) || isFloat(to):
		vc.Outside["floating-point conversion"] = true
		r := vc.Fresh("float", f.w.Sorts.SortOf(to))
		f.assumeType(to, r, st)
		return Val{T: r}, st
	case isString(to):
		r := vc.Fresh("str", SInt)
		switch u := from.Underlying().(type) {
		case *types.Slice:
			es := f.w.Sorts.SortOf(u.Elem())
			if eb, ok := u.Elem().Underlying().(*types.Basic); ok && eb.Kind() == types.Uint8 {
				m := st.Heap.Comp(memCompT(u.Elem()), memSort(es))
				i := Term{"i", SInt}
				vc.Assume(Implies(st.PC, Eq(StrLen(r), SLen(x.T))))
				vc.Assume(Forall([]Term{i}, Implies(And(st.PC, Le(IntLit(0), i), Lt(i, SLen(x.T))),
					Eq(StrAt(r, i), f.w.Sorts.Elt(Sel(m, SArr(x.T)), SOff(x.T), i))), []Term{StrAt(r, i)}))
				if vc.strProv == nil {
					vc.strProv = map[string]strProvenance{}
				}
				vc.strProv[r.S] = strProvenance{arr: vc.Alias("sarr", Sel(m, SArr(x.T))), off: vc.Alias("soff", SOff(x.T)), n: vc.Alias("slen", SLen(x.T))}
				return Val{T: r}, st
			}
			// []rune → string: contents unknown
			vc.Trusted["string([]rune) result is unconstrained"] = true
			return Val{T: r}, st
		case *types.Basic:
			if u.Info()&types.IsInteger != 0 {
				// string(byte/rune): one byte for ASCII, otherwise UTF-8 (unconstrained)
				vc.Assume(Implies(And(st.PC, Le(IntLit(0), x.T), Lt(x.T, IntLit(128))),
					And(Eq(StrLen(r), IntLit(1)), Eq(StrAt(r, IntLit(0)), x.T))))
				vc.Assume(Implies(st.PC, And(Ge(StrLen(r), IntLit(1)), Le(StrLen(r), IntLit(4)))))
				return Val{T: r}, st
			}
		}
	case isString(from):
		if u, ok := to.Underlying().(*types.Slice); ok {
			es := f.w.Sorts.SortOf(u.Elem())
			ref, h := f.allocRef(st, ins.Name())
			st.Heap = h
			arr := vc.Fresh("arr", ArraySort(SInt, es))
			comp := memCompT(u.Elem())
			st.Heap = st.Heap.Set(comp, vc.Define("h."+comp, Store(st.Heap.Comp(comp, memSort(es)), ref, arr)))
			if eb, ok := u.Elem().Underlying().(*types.Basic); ok && eb.Kind() == types.Uint8 {
				o, i := Term{"o", SInt}, Term{"i", SInt}
				vc.Assume(Forall([]Term{o, i}, Implies(And(Le(IntLit(0), Add(o, i)), Lt(Add(o, i), StrLen(x.T))), Eq(f.w.Sorts.Elt(arr, o, i), StrAt(x.T, Add(o, i)))), []Term{f.w.Sorts.Elt(arr, o, i)}))
				return Val{T: MkSlice(ref, IntLit(0), StrLen(x.T), StrLen(x.T))}, st
			}
			// []rune(string): length between 0 and len(s), at least 1 if s non-empty
			n := vc.Fresh("nrunes", SInt)
			vc.Assume(And(Le(IntLit(0), n), Le(n, StrLen(x.T)), Implies(Gt(StrLen(x.T), IntLit(0)), Ge(n, IntLit(1)))))
			vc.Trusted["[]rune(string): only the length bounds are modelled"] = true
			return Val{T: MkSlice(ref, IntLit(0), n, n)}, st
		}
	}
	if f.w.Sorts.SortOf(from) == f.w.Sorts.SortOf(to) {
		return x, st
	}
	f.fail("unsupported conversion %s → %s", typeName(from), typeName(to))
	return Val{T: vc.Fresh("conv", f.w.Sorts.SortOf(to))}, st
}

func (f *Frame) typeAssert(ins *ssa.TypeAssert, st State) Val {
	x := f.val(ins.X).T
	at := ins.AssertedType
	var ok, val Term
	if _, isIface := at.Underlying().(*types.Interface); isIface {
		f.vc.noteIfaceAssert(at)
		// typing of the operand: a non-nil value of static interface type S holds a
		// dynamic type that implements S (narrows the closed-world candidates)
		if sn, ok := ins.X.Type().(*types.Named); ok && sn.Obj().Pkg() != nil && f.w.inModule(sn.Obj().Pkg().Path()) {
			if si, ok := sn.Underlying().(*types.Interface); ok && si.NumMethods() > 0 {
				f.vc.noteIfaceAssert(sn)
				f.vc.Assume(Implies(Ne(ITag(x), IntLit(0)), App("implements!", SBool, IntLit(int64(f.w.Sorts.Tag(sn))), ITag(x))))
			}
		}
		ok = And(Ne(ITag(x), IntLit(0)), App("implements!", SBool, IntLit(int64(f.w.Sorts.Tag(at))), ITag(x)))
		val = x
	} else {
		ok = Eq(ITag(x), IntLit(int64(f.w.Sorts.Tag(at))))
		so := f.w.Sorts.SortOf(at)
		val = f.w.Sorts.Unbox(IVal(x), so)
	}
	if ins.CommaOk {
		okd := f.vc.Define("ok", ok)
		so := f.w.Sorts.SortOf(at)
		return Val{Tup: []Val{{T: Ite(okd, val, f.w.Sorts.Zero(so))}, {T: okd}}}
	}
	f.safety("assert", st, ok, "type assertion to "+typeName(at)+" at "+f.pos(ins))
	return Val{T: val}
}

func (f *Frame) lookup(ins *ssa.Lookup, st State) Val {
	x := f.val(ins.X).T
	k := f.val(ins.Index).T
	switch u := ins.X.Type().Underlying().(type) {
	case *types.Basic:
		f.safety("bounds", st, And(Le(IntLit(0), k), Lt(k, StrLen(x))), "string index out of range at "+f.pos(ins))
		return Val{T: StrAt(x, k)}
	case *types.Map:
		ks, vs := f.w.Sorts.SortOf(u.Key()), f.w.Sorts.SortOf(u.Elem())
		md := st.Heap.Comp(mapDomComp(ks, vs), ArraySort(SInt, ArraySort(ks, SBool)))
		mv := st.Heap.Comp(mapValComp(ks, vs), ArraySort(SInt, ArraySort(ks, vs)))
		present := f.vc.Define("present", And(Ne(x, IntLit(0)), Sel(Sel(md, x), k)))
		v := Ite(present, Sel(Sel(mv, x), k), f.w.Sorts.Zero(vs))
		v = f.vc.Define(f.label0()+ins.Name(), v)
		f.assumeType(u.Elem(), v, st)
		if ins.CommaOk {
			return Val{Tup: []Val{{T: v}, {T: present}}}
		}
		return Val{T: v}
	}
	f.fail("unsupported lookup")
	return Val{T: IntLit(0)}
}

func (f *Frame) mapUpdate(ins *ssa.MapUpdate, st State) State {
	vc := f.vc
	m := f.val(ins.Map).T
	k := f.val(ins.Key).T
	v := f.val(ins.Value).T
	mt := ins.Map.Type().Underlying().(*types.Map)
	ks, vs := f.w.Sorts.SortOf(mt.Key()), f.w.Sorts.SortOf(mt.Elem())
	f.safety("nilmap", st, Ne(m, IntLit(0)), "assignment to entry in nil map at "+f.pos(ins))
	if p, ok := ins.Map.(*ssa.UnOp); ok {
		f.guardCheckLoaded(p, st, ins)
	}
	mdn, mvn := mapDomComp(ks, vs), mapValComp(ks, vs)
	md := st.Heap.Comp(mdn, ArraySort(SInt, ArraySort(ks, SBool)))
	mv := st.Heap.Comp(mvn, ArraySort(SInt, ArraySort(ks, vs)))
	ms := st.Heap.Comp(mapSizeComp(ks, vs), ArraySort(SInt, SInt))
	was := Sel(Sel(md, m), k)
	st.Heap = st.Heap.Set(mapSizeComp(ks, vs), vc.Define("h.MS", Store(ms, m, Ite(was, Sel(ms, m), Add(Sel(ms, m), IntLit(1))))))
	st.Heap = st.Heap.Set(mdn, vc.Define("h."+mdn, Store(md, m, Store(Sel(md, m), k, True))))
	st.Heap = st.Heap.Set(mvn, vc.Define("h."+mvn, Store(mv, m, Store(Sel(mv, m), k, v))))
	return st
}

// guardCheckLoaded applies the write guard of a guarded field when the map
// stored in that field is mutated.
func (f *Frame) guardCheckLoaded(load *ssa.UnOp, st State, at ssa.Instruction) {
	if load.Op != token.MUL {
		return
	}
	p, ok := f.env[load.X]
	if !ok {
		return
	}
	f.guardCheck(p, st, true, at)
}

func (vc *VC) noteIfaceAssert(t types.Type) {
	if vc.ifaceAsserts == nil {
		vc.ifaceAsserts = map[string]types.Type{}
	}
	vc.ifaceAsserts[typeName(t)] = t
	if _, done := vc.cwFacts[typeName(t)]; done {
		return
	}
	if vc.cwFacts == nil {
		vc.cwFacts = map[string]string{}
	}
	vc.cwFacts[typeName(t)] = ""
	iface, ok := t.Underlying().(*types.Interface)
	if !ok {
		return
	}
	itag := vc.W.Sorts.Tag(t)
	// closed world: an interface declared in the module (with at least one
	// method) is implemented only by types of the loaded program
	if nt, ok := t.(*types.Named); ok && nt.Obj().Pkg() != nil && vc.W.inModule(nt.Obj().Pkg().Path()) && iface.NumMethods() > 0 {
		var impl []string
		for _, ct := range vc.W.allNamedTypes() {
			for _, c := range []types.Type{ct, types.NewPointer(ct)} {
				if _, isI := c.Underlying().(*types.Interface); isI {
					continue
				}
				if types.Implements(c, iface) {
					impl = append(impl, fmt.Sprintf("(= t %d)", vc.W.Sorts.Tag(c)))
				}
			}
		}
		sort.Strings(impl)
		body := "false"
		if len(impl) == 1 {
			body = impl[0]
		} else if len(impl) > 1 {
			body = "(or " + strings.Join(impl, " ") + ")"
		}
		vc.Trusted["closed world: interfaces declared in the module are implemented only by types of the loaded program"] = true
		vc.cwFacts[typeName(t)] = fmt.Sprintf("(assert (forall ((t Int)) (! (=> (implements! %d t) %s) :pattern ((implements! %d t)))))\n", itag, body, itag)
	}
}

// zeroArr is a zero-initialised backing array.
func (f *Frame) zeroArr(es Sort) Term {
	z := f.w.Sorts.Zero(es)
	a := f.vc.Fresh("zeroarr", ArraySort(SInt, es))
	f.vc.Assume(Eq(a, ConstArray(ArraySort(SInt, es), z)))
	o, i := Term{"o", SInt}, Term{"i", SInt}
	f.vc.Assume(Forall([]Term{o, i}, Eq(f.w.Sorts.Elt(a, o, i), z), []Term{f.w.Sorts.Elt(a, o, i)}))
	return a
}

// ioEOF is the value of the global io.EOF: a fixed non-nil error whose dynamic
// type is *errors.errorString (assumed never reassigned); declared in every query.
func (f *Frame) ioEOF() Term {
	f.vc.Trusted["io.EOF is never reassigned and holds a *errors.errorString"] = true
	return Term{"io.EOF!", SIface}
}

func (w *World) ioEOFDecl() string {
	out := "(declare-const io.EOF! Iface)\n"
	if p := w.AllTypes["errors"]; p != nil {
		if o := p.Scope().Lookup("errorString"); o != nil {
			tag := w.Sorts.Tag(types.NewPointer(o.Type()))
			out += fmt.Sprintf("(assert (and (= (itag io.EOF!) %d) (> (ival io.EOF!) 0)))\n", tag)
		}
	}
	return out
}

// feedsAppendOrCopy: the slice expression is an operand of append or copy (the
// reverse view axiom is only needed to carry element facts into such bulk moves).
func feedsAppendOrCopy(ins *ssa.Slice) bool {
	refs := ins.Referrers()
	if refs == nil {
		return false
	}
	for _, r := range *refs {
		if c, ok := r.(ssa.CallInstruction); ok {
			if b, ok := c.Common().Value.(*ssa.Builtin); ok && (b.Name() == "append" || b.Name() == "copy") {
				return true
			}
		}
	}
	return false
}

type privCell struct {
	ref  Term
	comp string
	sort Sort
}

// privateCell: the address of this heap-allocated local is only loaded from, stored
// to, or captured by closures that are only deferred / called directly and that use
// the captured variable only for loads and stores.
func privateCell(a *ssa.Alloc) bool {
	if a.Referrers() == nil {
		return false
	}
	onlyLoadStore := func(v ssa.Value, refs []ssa.Instruction) bool {
		for _, r := range refs {
			switch x := r.(type) {
			case *ssa.Store:
				if x.Val == v {
					return false
				}
			case *ssa.UnOp, *ssa.DebugRef:
			default:
				return false
			}
		}
		return true
	}
	for _, r := range *a.Referrers() {
		switch x := r.(type) {
		case *ssa.Store:
			if x.Val == ssa.Value(a) {
				return false
			}
		case *ssa.UnOp, *ssa.DebugRef:
		case *ssa.MakeClosure:
			fn, ok := x.Fn.(*ssa.Function)
			if !ok || x.Referrers() == nil {
				return false
			}
			for _, cr := range *x.Referrers() {
				switch c := cr.(type) {
				case *ssa.Defer:
					if c.Call.Value != ssa.Value(x) {
						return false
					}
				case *ssa.Call:
					if c.Call.Value != ssa.Value(x) {
						return false
					}
				case *ssa.DebugRef:
				default:
					return false
				}
			}
			for i, b := range x.Bindings {
				if b != ssa.Value(a) {
					continue
				}
				fv := fn.FreeVars[i]
				if fv.Referrers() == nil || !onlyLoadStore(fv, *fv.Referrers()) {
					return false
				}
			}
		default:
			return false
		}
	}
	return true
}
