package vc

import (
	"bytes"
	"context"
	"fmt"
	"os"
	"os/exec"
	"path/filepath"
	"strings"
	"sync"
	"sync/atomic"
	"time"
)

type Status int

const (
	Proved Status = iota
	Refuted
	Undecided
	ToolError
	Skipped
)

func (s Status) String() string {
	return [...]string{"proved", "refuted", "undecided", "tool-error", "skipped"}[s]
}

type Result struct {
	O       *Obligation
	Status  Status
	Solver  string
	Seconds float64
	Output  string // solver output (model on refutation)
	Agreed  []string
	File    string
}

type SolverCfg struct {
	TimeoutSec int
	Workers    int
	WorkDir    string
	CrossCheck bool // re-check every unsat on the other solvers
	KeepFiles  bool
	StopAfter  int                    // quick tier: stop attempting obligations once this many could not be discharged (0 = never)
	Known      func(name string) bool // obligations of listed known findings do not count towards StopAfter
}

type solverDef struct {
	name string
	args func(timeout int, file string) []string
}

var solvers = []solverDef{
	{"z3-new", func(t int, f string) []string { return []string{"z3-new", fmt.Sprintf("-T:%d", t), f} }},
	{"z3", func(t int, f string) []string { return []string{"z3", fmt.Sprintf("-T:%d", t), f} }},
	{"cvc5", func(t int, f string) []string {
		return []string{"cvc5", "--incremental", "--enum-inst", fmt.Sprintf("--tlimit=%d", t*1000), f}
	}},
	// portfolio variants of z3 5.1 (a quick "unknown" is seed-dependent; another seed often finds the proof)
	{"z3-new/seed7", func(t int, f string) []string {
		return []string{"z3-new", fmt.Sprintf("-T:%d", t), "smt.random_seed=7", f}
	}},
	{"z3-new/split3", func(t int, f string) []string {
		return []string{"z3-new", fmt.Sprintf("-T:%d", t), "auto_config=false", "smt.case_split=3", "smt.random_seed=13", f}
	}},
}

func runSolver(sd solverDef, timeout int, file string) (answer string, out string, secs float64) {
	ctx, cancel := context.WithTimeout(context.Background(), time.Duration(timeout+5)*time.Second)
	defer cancel()
	args := sd.args(timeout, file)
	cmd := exec.CommandContext(ctx, args[0], args[1:]...)
	var buf bytes.Buffer
	cmd.Stdout = &buf
	cmd.Stderr = &buf
	t0 := time.Now()
	_ = cmd.Run()
	secs = time.Since(t0).Seconds()
	out = buf.String()
	// the answer is the first line that is not a solver warning
	first := ""
	for _, l := range strings.Split(out, "\n") {
		l = strings.TrimSpace(l)
		if l == "" || strings.HasPrefix(l, "WARNING") {
			continue
		}
		first = l
		break
	}
	switch first {
	case "unsat", "sat", "unknown":
		return first, out, secs
	case "timeout":
		return "unknown", out, secs
	}
	if strings.Contains(out, "(error") || first != "" {
		return "error", out, secs
	}
	return "unknown", out, secs
}

// Solve discharges the obligations in parallel.
func Solve(obls []*Obligation, cfg SolverCfg) []*Result {
	if cfg.Workers <= 0 {
		cfg.Workers = 16
	}
	if cfg.TimeoutSec <= 0 {
		cfg.TimeoutSec = 10
	}
	if cfg.WorkDir == "" {
		d, err := os.MkdirTemp("", "govc-")
		if err != nil {
			panic(err)
		}
		cfg.WorkDir = d
		if !cfg.KeepFiles {
			defer os.RemoveAll(d)
		}
	} else {
		os.MkdirAll(cfg.WorkDir, 0o755)
	}
	results := make([]*Result, len(obls))
	var wg sync.WaitGroup
	sem := make(chan struct{}, cfg.Workers)
	var failed int32
	for i, o := range obls {
		wg.Add(1)
		sem <- struct{}{}
		go func(i int, o *Obligation) {
			defer wg.Done()
			defer func() { <-sem }()
			if cfg.StopAfter > 0 && atomic.LoadInt32(&failed) >= int32(cfg.StopAfter) && !o.Negate {
				// enough undischarged obligations to report: the rest is not attempted
				results[i] = &Result{O: o, Status: Skipped}
				return
			}
			results[i] = solveGuarded(o, i, cfg)
			if results[i].Status != Proved && (cfg.Known == nil || !cfg.Known(o.Name)) {
				atomic.AddInt32(&failed, 1)
			}
		}(i, o)
	}
	wg.Wait()
	return results
}

func solveOne(o *Obligation, idx int, cfg SolverCfg) *Result {
	r := &Result{O: o}
	if o.Trivial && !o.Negate {
		r.Status = Proved
		r.Solver = "syntactic"
		return r
	}
	smt := o.SMT()
	if o.Negate && o.HasOpt() {
		// vacuity guards must see every assumption, the optional ones included
		smt = o.SMTOpt()
	}
	if len(smt) > 1<<20 {
		r.Status = ToolError
		r.Output = fmt.Sprintf("VC size %d exceeds cap", len(smt))
		return r
	}
	file := filepath.Join(cfg.WorkDir, fmt.Sprintf("o%05d.smt2", idx))
	if err := os.WriteFile(file, []byte(smt+"(get-model)\n"), 0o644); err != nil {
		r.Status = ToolError
		r.Output = err.Error()
		return r
	}
	r.File = file
	var lastOut string
	var errs []string
	// escalation: a short round over all solvers first, then the full timeout
	type attempt struct {
		si      int
		timeout int
	}
	var plan []attempt
	short := 3
	if cfg.TimeoutSec <= short {
		short = cfg.TimeoutSec
	}
	if o.Negate {
		plan = []attempt{{0, 2}}
	} else {
		for _, si := range []int{0, 3, 2, 4, 1} {
			plan = append(plan, attempt{si, short})
		}
		if cfg.TimeoutSec > short {
			for _, si := range []int{0, 2, 4, 1} {
				plan = append(plan, attempt{si, cfg.TimeoutSec})
			}
		}
	}
	// helpers: the query with the optional axioms (closed entry heap), and the goal exit
	// by exit (the merged exit state - arrays under if-then-else - defeats the solvers
	// now and then; the exits' path conditions cover the obligation's path condition)
	tryOpt := func(ats []attempt) bool {
		if o.Negate || !o.HasOpt() {
			return false
		}
		of := filepath.Join(cfg.WorkDir, fmt.Sprintf("o%05d.opt.smt2", idx))
		if err := os.WriteFile(of, []byte(o.SMTOpt()), 0o644); err != nil {
			return false
		}
		defer func() {
			if !cfg.KeepFiles {
				os.Remove(of)
			}
		}()
		for _, at := range ats {
			ans, _, secs := runSolver(solvers[at.si], at.timeout, of)
			r.Seconds += secs
			if ans == "unsat" {
				r.Status = Proved
				r.Solver = solvers[at.si].name + " +closed-heap"
				return true
			}
			if ans == "sat" {
				return false
			}
		}
		return false
	}
	tryCases := func(ats []attempt) bool {
		if o.Negate || len(o.Cases) < 2 {
			return false
		}
		for i := range o.Cases {
			cf := filepath.Join(cfg.WorkDir, fmt.Sprintf("o%05d.case%d.smt2", idx, i))
			if err := os.WriteFile(cf, []byte(o.SMTCase(i)), 0o644); err != nil {
				return false
			}
			ok := false
			for _, at := range ats {
				ans, _, secs := runSolver(solvers[at.si], at.timeout, cf)
				r.Seconds += secs
				if ans == "unsat" {
					ok = true
					break
				}
				if ans == "sat" {
					break
				}
			}
			if !cfg.KeepFiles {
				os.Remove(cf)
			}
			if !ok {
				return false
			}
		}
		r.Status = Proved
		r.Solver = "z3-new/cvc5 by exit cases"
		return true
	}
	earlyDone := false
	for _, at := range plan {
		if !earlyDone && at.timeout != short && !o.Negate {
			// between the short and the long round: the two helpers with short timeouts
			earlyDone = true
			if tryOpt([]attempt{{0, short}, {2, short}, {4, short}}) {
				return r
			}
			if tryCases([]attempt{{0, short}, {2, short}, {4, short}}) {
				return r
			}
		}
		si, sd := at.si, solvers[at.si]
		ans, out, secs := runSolver(sd, at.timeout, file)
		r.Seconds += secs
		switch ans {
		case "unsat":
			if o.Negate {
				r.Status = ToolError
				r.Solver = sd.name
				r.Output = "vacuity: the assumptions of " + o.Name + " are contradictory (" + sd.name + " proved false)"
				return r
			}
			r.Status = Proved
			r.Solver = sd.name
			if cfg.CrossCheck {
				for sj, other := range solvers[:3] {
					if sj == si || (si >= 3 && sj == 0) {
						continue
					}
					// the cross-check is a second opinion, not the proof: short timeout
					ct := cfg.TimeoutSec
					if ct > 5 {
						ct = 5
					}
					a2, _, s2 := runSolver(other, ct, file)
					r.Seconds += s2
					if a2 == "unsat" {
						r.Agreed = append(r.Agreed, other.name)
					} else if a2 == "sat" {
						r.Status = ToolError
						r.Output = fmt.Sprintf("solvers disagree: %s unsat, %s sat", sd.name, other.name)
						return r
					}
				}
			}
			return r
		case "sat":
			if o.Negate {
				r.Status = Proved
				r.Solver = sd.name
				return r
			}
			r.Status = Refuted
			r.Solver = sd.name
			r.Output = out
			return r
		case "error":
			errs = append(errs, sd.name+": "+firstLines(out, 3))
		}
		lastOut = out
	}
	if o.Negate {
		// nobody could prove false: the assumptions are not known to be contradictory
		r.Status = Proved
		r.Solver = "none-refuted"
		return r
	}
	if len(errs) >= len(plan) {
		r.Status = ToolError
		r.Output = strings.Join(errs, " | ")
		return r
	}
	// last resort: the optional axioms and the exit-case split with the full timeout
	if tryOpt([]attempt{{0, cfg.TimeoutSec}, {2, cfg.TimeoutSec}, {4, cfg.TimeoutSec}}) {
		return r
	}
	if tryCases([]attempt{{0, cfg.TimeoutSec}, {2, cfg.TimeoutSec}, {4, cfg.TimeoutSec}}) {
		return r
	}
	r.Status = Undecided
	r.Output = lastOut
	if len(errs) > 0 {
		r.Output = strings.Join(errs, " | ") + "\n" + lastOut
	}
	return r
}

func firstLines(s string, n int) string {
	lines := strings.Split(s, "\n")
	if len(lines) > n {
		lines = lines[:n]
	}
	return strings.Join(lines, " ")
}

// solveGuarded runs solveOne; a panic inside it (resource exhaustion while
// spawning solvers, for instance) is retried twice before it becomes a tool error.
func solveGuarded(o *Obligation, idx int, cfg SolverCfg) (res *Result) {
	for attempt := 0; ; attempt++ {
		var perr any
		func() {
			defer func() { perr = recover() }()
			res = solveOne(o, idx, cfg)
		}()
		if perr == nil {
			return res
		}
		fmt.Fprintf(os.Stderr, "govc: internal error while solving %s (attempt %d): %v\n", o.Name, attempt+1, perr)
		if attempt >= 2 {
			return &Result{O: o, Status: ToolError, Output: fmt.Sprintf("internal error: %v", perr)}
		}
		time.Sleep(time.Duration(attempt+1) * time.Second)
	}
}
