package vc

import (
	"fmt"
	"go/constant"
	"go/types"
	"sort"
	"strings"

	"golang.org/x/tools/go/ssa"
	"golang.org/x/tools/go/ssa/ssautil"
)

// AritySweep generates, for EVERY function of the module (whether or not it
// carries a contract), the obligations of property C07 "message templates and
// argument lists agree at every error construction site":
//
//   - errors.Format(code, args...) with a constant code: errArity(code) == len(args)
//   - a constant errors.ErrorCode converted to an interface (used as a bare
//     error value, whose Error() has no arguments): errArity(code) == 0
//   - helpers that take the code as a parameter and pass it on with a fixed
//     number of arguments: the same obligation at each of their call sites.
//
// errArity is extracted from errors.errorFormat on every run (tables.go).
func (w *World) AritySweep() *VC {
	vc := NewVC(w, "arity-sweep")
	vc.UseSpec("errArity")
	type helper struct {
		param int
		arity int
	}
	helpers := map[*ssa.Function]helper{}
	var fns []*ssa.Function
	for fn := range ssautil.AllFunctions(w.Prog) {
		if fn.Pkg == nil || !strings.HasPrefix(fn.Pkg.Pkg.Path(), modulePrefix) || fn.Blocks == nil {
			continue
		}
		if strings.Contains(fn.Pkg.Pkg.Path(), "/internal/cmd/") || strings.Contains(fn.Pkg.Pkg.Path(), "/mocks") {
			continue
		}
		fns = append(fns, fn)
	}
	sort.Slice(fns, func(i, j int) bool { return fnDisplay(fns[i]) < fnDisplay(fns[j]) })
	isErrorCode := func(t types.Type) bool {
		n, ok := t.(*types.Named)
		return ok && n.Obj().Pkg() != nil && n.Obj().Pkg().Path() == errorsPkg && n.Obj().Name() == "ErrorCode"
	}
	constCode := func(v ssa.Value) (int64, bool) {
		c, ok := v.(*ssa.Const)
		if !ok || c.Value == nil || c.Value.Kind() != constant.Int {
			return 0, false
		}
		n, ok := constant.Int64Val(c.Value)
		return n, ok
	}
	goal := func(code int64, n int) Term {
		return Eq(App("sf!errArity", SInt, IntLit(code)), IntLit(int64(n)))
	}
	pos := func(ins ssa.Instruction) string {
		p := w.Fset.Position(ins.Pos())
		return fmt.Sprintf("%s:%d", shortPath(p.Filename), p.Line)
	}
	// pass 1: direct sites and helper discovery
	for _, fn := range fns {
		label := "arity." + fnDisplay(fn)
		for _, b := range fn.Blocks {
			for _, ins := range b.Instrs {
				switch ins := ins.(type) {
				case *ssa.Call:
					callee := ins.Call.StaticCallee()
					if callee == nil || callee.Pkg == nil || callee.Pkg.Pkg.Path() != errorsPkg || callee.Name() != "Format" || callee.Signature.Recv() != nil {
						continue
					}
					n, okLen := staticLen(ins.Call.Args[1])
					k := vc.Ordinal(label + "#format")
					if code, ok := constCode(ins.Call.Args[0]); ok && okLen {
						vc.Oblige(label, "format", fmt.Sprintf("%d", k), True, goal(code, int(n)),
							fmt.Sprintf("errors.Format(%d, %d args) at %s", code, n, pos(ins)))
						continue
					}
					if p, ok := ins.Call.Args[0].(*ssa.Parameter); ok && okLen {
						for i, fp := range fn.Params {
							if fp == p {
								helpers[fn] = helper{i, int(n)}
							}
						}
						continue
					}
					if fa, ok := ins.Call.Args[0].(*ssa.UnOp); ok && okLen {
						// code read from a struct field: the value must have been validated where the struct is built
						vc.Trusted[fmt.Sprintf("errors.Format at %s takes its code from %s (checked where that value is constructed: see helper sites)", pos(ins), fa.X.String())] = true
						continue
					}
					vc.Oblige(label, "format", fmt.Sprintf("%d", k), True, False, "errors.Format with a code/argument list that is not statically known at "+pos(ins))
				case *ssa.MakeInterface:
					if !isErrorCode(ins.X.Type()) {
						continue
					}
					k := vc.Ordinal(label + "#barecode")
					if code, ok := constCode(ins.X); ok {
						vc.Oblige(label, "barecode", fmt.Sprintf("%d", k), True, goal(code, 0),
							fmt.Sprintf("error code %d used as a bare error value at %s", code, pos(ins)))
					}
				}
			}
		}
	}
	// explicit helpers whose code flows through a struct field
	for _, fn := range fns {
		if fnDisplay(fn) == "notations/internal.NewValidatorError" {
			helpers[fn] = helper{0, 0}
		}
	}
	// pass 2: call sites of helpers
	for _, fn := range fns {
		label := "arity." + fnDisplay(fn)
		for _, b := range fn.Blocks {
			for _, ins := range b.Instrs {
				call, ok := ins.(ssa.CallInstruction)
				if !ok {
					continue
				}
				callee := call.Common().StaticCallee()
				h, isHelper := helpers[callee]
				if callee == nil || !isHelper {
					continue
				}
				k := vc.Ordinal(label + "#helper")
				args := call.Common().Args
				if h.param >= len(args) {
					continue
				}
				if code, ok := constCode(args[h.param]); ok {
					vc.Oblige(label, "helper", fmt.Sprintf("%d", k), True, goal(code, h.arity),
						fmt.Sprintf("%s(code %d) needs a template with %d argument(s) at %s", callee.Name(), code, h.arity, pos(ins)))
				} else if p, ok := args[h.param].(*ssa.Parameter); ok {
					// passes its own parameter on: becomes a helper itself (one more level)
					for i, fp := range fn.Params {
						if fp == p {
							if _, seen := helpers[fn]; !seen {
								helpers[fn] = helper{i, h.arity}
								vc.Errorf("%s forwards an error code to %s; add it to the helper list", fnDisplay(fn), callee.Name())
							}
						}
					}
				} else {
					vc.Oblige(label, "helper", fmt.Sprintf("%d", k), True, False,
						fmt.Sprintf("%s called with a code that is not statically known at %s", callee.Name(), pos(ins)))
				}
			}
		}
	}
	for _, p := range w.TableProblems {
		vc.Oblige("arity.table", "table", "", True, False, p)
	}
	return vc
}
