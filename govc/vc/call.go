package vc

import (
	"fmt"
	"go/token"
	"go/types"
	"sort"
	"strings"

	"golang.org/x/tools/go/ssa"
)

// ---- calls ----

func (f *Frame) call(ins ssa.CallInstruction, st State) (State, Val) {
	common := ins.Common()
	if b, ok := common.Value.(*ssa.Builtin); ok {
		return f.builtin(b, ins, st)
	}
	var args []Val
	for _, a := range common.Args {
		args = append(args, f.val(a))
	}
	sig := common.Signature()
	if common.IsInvoke() {
		recv := f.val(common.Value)
		f.safety("nil", st, Ne(ITag(recv.T), IntLit(0)), "method call on nil interface at "+f.pos(ins))
		key := "interface:" + ifaceKey(common.Value.Type()) + "." + common.Method.Name()
		if fc := f.w.NamedC[key]; fc != nil {
			all := append([]Val{recv}, args...)
			return f.applyContract(fc, nil, key, all, sig, st, ins)
		}
		return f.unknownCall("interface method "+ifaceKey(common.Value.Type())+"."+common.Method.Name(), append([]Val{recv}, args...), sig, st, ins)
	}
	if callee := common.StaticCallee(); callee != nil {
		if mc, ok := common.Value.(*ssa.MakeClosure); ok {
			// immediately-applied closure: bind free variables
			return f.callFunction(callee, args, f.closureBindings(mc), sig, st, ins)
		}
		return f.callFunction(callee, args, nil, sig, st, ins)
	}
	// dynamic call through a function value
	fv := f.val(common.Value)
	if named, ok := common.Value.Type().(*types.Named); ok {
		key := "functype:" + named.Obj().Pkg().Path() + "." + named.Obj().Name()
		if fc := f.w.NamedC[key]; fc != nil {
			f.safety("nil", st, Ne(fv.T, IntLit(0)), "call of nil function value at "+f.pos(ins))
			return f.applyContractFn(fc, nil, key, fv.T, args, sig, st, ins)
		}
	}
	// a function-valued struct field with a contract (`functype T.field(self, args)`):
	// every value stored there is checked to be a method of the SAME object that
	// refines the contract (see fieldFuncStoreCheck), so a call through the field
	// is a call of such a method on the object holding the field
	if key, self, ok := f.fieldFuncKey(common.Value); ok {
		if fc := f.w.NamedC[key]; fc != nil {
			f.safety("nil", st, Ne(fv.T, IntLit(0)), "call of nil function value at "+f.pos(ins))
			all := append([]Val{self}, args...)
			return f.applyContractFn(fc, nil, key, Term{}, all, sig, st, ins)
		}
	}
	// closure created in this frame and called here
	if cl, ok := f.closures[fv.T.S]; ok {
		return f.callFunction(cl.fn, args, cl.bindings, sig, st, ins)
	}
	// callback parameter: pure application model (closures of this frame that
	// have contracts are described to the model first)
	f.closureSummariesAll(st)
	if !derivesFromParam(common.Value, 0) {
		// not a callback parameter: a function value read from memory. The pure
		// model is an assumption here and is listed as such.
		f.vc.Trusted["a function value read from memory (not a parameter) is called in "+f.label+" and modelled as a pure callback"] = true
		f.vc.Outside["dynamic call through a stored function value"] = true
	}
	return f.callbackCall(fv.T, args, sig, st, ins)
}

func ifaceKey(t types.Type) string {
	if n, ok := t.(*types.Named); ok && n.Obj().Pkg() != nil {
		return n.Obj().Pkg().Path() + "." + n.Obj().Name()
	}
	return typeName(t)
}

// callFunction handles a call to a known function.
func (f *Frame) callFunction(callee *ssa.Function, args []Val, free map[*ssa.FreeVar]Val, sig *types.Signature, st State, ins ssa.CallInstruction) (State, Val) {
	if FuncKey(callee) == "sync.(*Once).Do" && len(args) == 2 {
		return f.onceDo(args[0], args[1], callee, st, ins)
	}
	fc := f.w.ContractOf(callee)
	if fc != nil && !fc.Inline {
		return f.applyContract(fc, callee, fnDisplay(callee), args, sig, st, ins)
	}
	if callee.Blocks != nil && f.depth < maxInlineDepth && !f.onStack(callee) && f.inlinable(callee) {
		return f.inline(callee, fc, args, free, st, ins)
	}
	return f.unknownCall(fnDisplay(callee), args, sig, st, ins)
}

func (f *Frame) onStack(fn *ssa.Function) bool {
	if f.fn == fn {
		return true
	}
	for _, s := range f.callStack {
		if s == fn {
			return true
		}
	}
	return false
}

// inlinable: body available and every loop (if any) has a spec in an inline contract.
func (f *Frame) inlinable(fn *ssa.Function) bool {
	if fn.Recover != nil {
		return false
	}
	for _, b := range fn.Blocks {
		for _, s := range b.Succs {
			if s.Dominates(b) {
				fc := f.w.ContractOf(fn)
				return fc != nil && fc.Inline
			}
		}
		for _, ins := range b.Instrs {
			switch ins.(type) {
			case *ssa.Go, *ssa.Select, *ssa.Send:
				return false
			}
		}
	}
	return true
}

func (f *Frame) inline(callee *ssa.Function, fc *FuncContract, args []Val, free map[*ssa.FreeVar]Val, st State, ins ssa.CallInstruction) (State, Val) {
	vc := f.vc
	n := vc.Ordinal(f.label + "#inline@" + callee.Name())
	sub := &Frame{vc: vc, w: f.w, fn: callee, fc: fc, depth: f.depth + 1,
		label:     fmt.Sprintf("%s/%s@%d", f.label, callee.Name(), n),
		env:       map[ssa.Value]Val{},
		entryHeap: f.entryHeap, callStack: append(append([]*ssa.Function{}, f.callStack...), f.fn),
		closures: f.closures, frameMS: f.frameMS, dctx: f.dctx,
	}
	if _, isDefer := ins.(*ssa.Defer); !isDefer {
		// recover() stops a panic only when called DIRECTLY by the deferred
		// function; in a function called from it, it returns nil
		sub.dctx = nil
		sub.noRecover = true
	}
	for i, p := range callee.Params {
		if i < len(args) {
			sub.env[p] = args[i]
		}
	}
	for fv, v := range free {
		sub.env[fv] = v
	}
	for _, fv := range callee.FreeVars {
		if _, ok := sub.env[fv]; !ok {
			f.fail("free variable %s of %s unbound", fv.Name(), callee.Name())
		}
	}
	vc.Comment("inline " + sub.label)
	sub.run(st)
	// merge exits
	var normals []Exit
	for _, e := range sub.exits {
		if e.Panic {
			f.exit(e)
		} else {
			normals = append(normals, e)
		}
	}
	if len(normals) == 0 {
		return State{PC: False, Heap: st.Heap}, f.zeroResult(callee.Signature)
	}
	pc, heap, res := f.mergeExits(normals, callee.Signature)
	return State{PC: pc, Heap: heap}, res
}

func (f *Frame) zeroResult(sig *types.Signature) Val {
	switch sig.Results().Len() {
	case 0:
		return Val{T: IntLit(0)}
	case 1:
		return Val{T: f.w.Sorts.Zero(f.w.Sorts.SortOf(sig.Results().At(0).Type()))}
	}
	var v Val
	for i := 0; i < sig.Results().Len(); i++ {
		v.Tup = append(v.Tup, Val{T: f.w.Sorts.Zero(f.w.Sorts.SortOf(sig.Results().At(i).Type()))})
	}
	return v
}

func (f *Frame) mergeExits(exits []Exit, sig *types.Signature) (Term, *Heap, Val) {
	var pcs []Term
	var heaps []*Heap
	for i := range exits {
		exits[i].PC = f.vc.Define("pc", exits[i].PC)
		pcs = append(pcs, exits[i].PC)
		heaps = append(heaps, exits[i].Heap)
	}
	pc := f.vc.Define("pc", Or(pcs...))
	heap := heaps[0]
	if len(exits) > 1 {
		heap = f.mergeHeaps(pcs, heaps)
	}
	nres := sig.Results().Len()
	var res Val
	switch nres {
	case 0:
		res = Val{T: IntLit(0)}
	case 1:
		var vs []Val
		for _, e := range exits {
			vs = append(vs, e.Results[0])
		}
		res = f.mergeVals("ret", pcs, vs)
	default:
		for k := 0; k < nres; k++ {
			var vs []Val
			for _, e := range exits {
				vs = append(vs, e.Results[k])
			}
			res.Tup = append(res.Tup, f.mergeVals(fmt.Sprintf("ret%d", k), pcs, vs))
		}
	}
	return pc, heap, res
}

// unknownCall: no contract, not inlinable → havoc.
func (f *Frame) unknownCall(name string, args []Val, sig *types.Signature, st State, ins ssa.CallInstruction) (State, Val) {
	vc := f.vc
	vc.Outside["havoc'd call to "+name] = true
	vc.Comment("havoc'd call to " + name)
	immutable := true
	for i, a := range args {
		_ = i
		if a.Loc != nil {
			immutable = false
		}
	}
	params := sig.Params()
	check := func(t types.Type) {
		switch t.Underlying().(type) {
		case *types.Basic:
		default:
			immutable = false
		}
	}
	if sig.Recv() != nil {
		check(sig.Recv().Type())
	}
	for i := 0; i < params.Len(); i++ {
		check(params.At(i).Type())
	}
	heap := st.Heap
	if !immutable {
		heap = f.havocAll(st.Heap)
	} else {
		// may still allocate
		na := vc.Fresh("alloc", SInt)
		vc.Assume(Ge(na, st.Heap.Comp(allocComp, SInt)))
		heap = heap.Set(allocComp, na)
	}
	panicked := vc.Fresh("panicked", SBool)
	pv := vc.Fresh("pv", SIface)
	f.exit(Exit{Panic: true, PC: vc.Define("pc", And(st.PC, panicked)), Heap: heap, PV: pv})
	nst := State{PC: vc.Define("pc", And(st.PC, Not(panicked))), Heap: heap}
	return nst, f.freshResults(sig, nst)
}

func (f *Frame) freshResults(sig *types.Signature, st State) Val {
	n := sig.Results().Len()
	mk := func(i int) Val {
		t := sig.Results().At(i).Type()
		c := f.vc.Fresh("r", f.w.Sorts.SortOf(t))
		f.assumeType(t, c, st)
		return Val{T: c}
	}
	switch n {
	case 0:
		return Val{T: IntLit(0)}
	case 1:
		return mk(0)
	}
	var v Val
	for i := 0; i < n; i++ {
		v.Tup = append(v.Tup, mk(i))
	}
	return v
}

// havocAll forgets every heap component (new epoch).
func (f *Frame) havocAll(h *Heap) *Heap {
	vc := f.vc
	vc.epoch++
	nh := &Heap{comps: map[string]Term{}, vc: vc}
	names := map[string]Sort{}
	for n, s := range vc.compSorts {
		names[n] = s
	}
	for n, t := range h.comps {
		names[n] = t.Sort
	}
	for n, s := range names {
		if n == allocComp {
			continue
		}
		if strings.HasPrefix(n, "L!") {
			// non-escaping locals are not reachable by callees
			if t, ok := h.comps[n]; ok {
				nh.comps[n] = t
			}
			continue
		}
		nh.comps[n] = vc.Fresh(fmt.Sprintf("hv%d.%s", vc.epoch, n), s)
		vc.AssumeCompTyping(n, nh.comps[n])
	}
	na := vc.Fresh("alloc", SInt)
	vc.Assume(Ge(na, h.Comp(allocComp, SInt)))
	nh.comps[allocComp] = na
	nh.epochBase = fmt.Sprintf("hv%d", vc.epoch)
	for _, pc := range vc.privateCells {
		if _, ok := h.comps[pc.comp]; !ok {
			continue
		}
		vc.Assume(Eq(Sel(nh.Comp(pc.comp, pc.sort), pc.ref), Sel(h.Comp(pc.comp, pc.sort), pc.ref)))
	}
	return nh
}

// callbackCall models a call through a function-typed parameter: the result is
// a deterministic function of the arguments, the heap is untouched, the callback
// may panic.
func (f *Frame) callbackCall(fn Term, args []Val, sig *types.Signature, st State, ins ssa.CallInstruction) (State, Val) {
	vc := f.vc
	vc.Trusted["callbacks are pure, deterministic and do not re-enter the data structure"] = true
	var as []Term
	var sorts []string
	as = append(as, fn)
	sorts = append(sorts, "Int")
	for _, a := range args {
		if a.Loc != nil {
			f.fail("interior pointer passed to callback")
			return st, f.freshResults(sig, st)
		}
		as = append(as, a.T)
		sorts = append(sorts, string(a.T.Sort))
	}
	mk := func(i int) Val {
		t := sig.Results().At(i).Type()
		so := f.w.Sorts.SortOf(t)
		name := f.w.AppFun("app", sorts, so, i)
		v := vc.Define("app", App(name, so, as...))
		f.assumeType(t, v, st)
		return Val{T: v}
	}
	pname := f.w.AppFun("apppanics", sorts, SBool, 0)
	panicked := vc.Define("cbpanics", App(pname, SBool, as...))
	pv := vc.Define("cbpv", App(f.w.AppFun("apppv", sorts, SIface, 0), SIface, as...))
	f.exit(Exit{Panic: true, PC: vc.Define("pc", And(st.PC, panicked)), Heap: st.Heap, PV: pv})
	nst := State{PC: vc.Define("pc", And(st.PC, Not(panicked))), Heap: st.Heap}
	var res Val
	switch sig.Results().Len() {
	case 0:
		res = Val{T: IntLit(0)}
	case 1:
		res = mk(0)
	default:
		for i := 0; i < sig.Results().Len(); i++ {
			res.Tup = append(res.Tup, mk(i))
		}
	}
	return nst, res
}

func (vc *VC) declareFun(name string, argSorts []string, res Sort) {
	if vc.declared[name] {
		return
	}
	vc.declared[name] = true
	vc.Lines = append(vc.Lines, fmt.Sprintf("(declare-fun %s (%s) %s)", name, strings.Join(argSorts, " "), res))
}

// ---- contracts at call sites ----

func (f *Frame) applyContract(fc *FuncContract, callee *ssa.Function, name string, args []Val, sig *types.Signature, st State, ins ssa.CallInstruction) (State, Val) {
	return f.applyContractFn(fc, callee, name, Term{}, args, sig, st, ins)
}

// bindContractNames builds the variable map for a contract: formal names → values.
func (f *Frame) bindContractNames(fc *FuncContract, callee *ssa.Function, fnVal Term, args []Val, sig *types.Signature) (map[string]SVal, error) {
	vars := map[string]SVal{}
	var ptypes []types.Type
	var pnames []string
	if callee != nil {
		for _, p := range callee.Params {
			ptypes = append(ptypes, p.Type())
			pnames = append(pnames, p.Name())
		}
	} else {
		if fc.Kind == "functype" && strings.Contains(fc.Target, ".") && len(args) == sig.Params().Len()+1 && len(fc.Params) > 0 {
			// contract of a function-valued struct field: first arg is the struct pointer
			pnames = append(pnames, fc.Params[0].Name)
			var st types.Type = types.NewInterfaceType(nil, nil)
			if t, err := f.w.ResolveType("*"+fc.Target[:strings.Index(fc.Target, ".")], fc.ScopePkg); err == nil {
				st = t
			}
			ptypes = append(ptypes, st)
		} else if sig.Recv() != nil || len(args) == sig.Params().Len()+1 {
			// interface method: first arg is the receiver (interface value)
			pnames = append(pnames, "self")
			ptypes = append(ptypes, types.NewInterfaceType(nil, nil))
		}
		for i := 0; i < sig.Params().Len(); i++ {
			pnames = append(pnames, sig.Params().At(i).Name())
			ptypes = append(ptypes, sig.Params().At(i).Type())
		}
	}
	if len(pnames) != len(args) {
		return nil, fmt.Errorf("contract %s: %d formal parameters, %d arguments", fc.Target, len(pnames), len(args))
	}
	bind := func(n string, a Val, t types.Type) {
		if n == "" || n == "_" {
			return
		}
		if len(a.Tup) > 0 || (a.Loc == nil && a.T.IsZero()) {
			return
		}
		if a.Loc != nil {
			// pointer to a non-struct location: expose as dereferenced value under "*name" is not expressible; skip
			return
		}
		vars[n] = SVal{T: a.T, Go: t}
	}
	for i, a := range args {
		bind(pnames[i], a, ptypes[i])
	}
	// names given in the contract header override positionally (receiver excluded)
	off := len(args) - len(fc.Params)
	if len(fc.Params) > 0 && off >= 0 {
		for i, p := range fc.Params {
			bind(p.Name, args[off+i], ptypes[off+i])
		}
	}
	// a function that refines a functype contract: the functype's parameter names
	// alias the function's parameters (receiver first) positionally
	if fc.Refines != "" {
		if base := f.w.findFuncType(fc.Refines, fc.ScopePkg); base != nil && len(base.Params) == len(args) {
			for i, p := range base.Params {
				if _, have := vars[p.Name]; !have {
					bind(p.Name, args[i], ptypes[i])
				}
			}
		}
	}
	// a method that implements an interface contract: the interface contract's
	// parameter names (after self) alias the method's parameters positionally
	if fc.Implements != "" {
		if base := f.w.findIfaceContract(fc.Implements, fc.ScopePkg); base != nil && len(base.Params) > 1 {
			bp := base.Params[1:]
			off := len(args) - len(bp)
			if off >= 0 {
				for i, p := range bp {
					bind(p.Name, args[off+i], ptypes[off+i])
				}
			}
		}
	}
	if !fnVal.IsZero() {
		vars["fn"] = SVal{T: fnVal}
	}
	return vars, nil
}

func (f *Frame) applyContractFn(fc *FuncContract, callee *ssa.Function, name string, fnVal Term, args []Val, sig *types.Signature, st State, ins ssa.CallInstruction) (State, Val) {
	vc := f.vc
	if fc.Trusted != "" {
		vc.Trusted["assumed contract of "+name+": "+fc.Trusted] = true
	}
	vars, err := f.bindContractNames(fc, callee, fnVal, args, sig)
	if err != nil {
		f.fail("%v", err)
		return f.unknownCall(name, args, sig, st, ins)
	}
	clauses := f.w.effectiveContract(fc)
	if fc.Refines != "" && callee != nil {
		id := f.w.FnID(callee)
		vc.UseFnID(id)
		vars["fn"] = SVal{T: IntLit(int64(id))}
	}
	if fc.Implements != "" && len(args) > 0 {
		if sv, ok := f.selfIface(callee, args[0]); ok {
			vars["self"] = sv
		}
	}
	f.closureSummaries(args, st)
	pre := &SpecEnv{W: f.w, Vars: vars, Heap: st.Heap, Old: st.Heap, Scope: fc.ScopePkg, Side: vc}
	site := vc.Ordinal(f.label + "#pre@" + name)
	if callee != nil && callee == vc.entryFn && fc.Decreases != nil && !vc.entryMeasure.IsZero() {
		// a call of the verified function to itself: the measure drops and stays non-negative
		pre.Scope = fc.ScopePkg
		if v, err := pre.Eval(fc.Decreases.E); err != nil {
			f.fail("decreases at the recursive call: %v", err)
		} else {
			m := pre.value(v).T
			vc.Oblige(f.label, "decreases@"+name, fmt.Sprintf("%d", site), st.PC, And(Ge(m, IntLit(0)), Lt(m, vc.entryMeasure)),
				"recursive call: "+fc.Decreases.Src+" decreases and stays >= 0 at "+f.pos(ins))
		}
	}
	for k, r := range clauses.requires {
		pre.Scope = r.scope
		t, err := pre.EvalBool(r.c)
		if err != nil {
			f.fail("precondition of %s: %v", name, err)
			continue
		}
		vc.Oblige(f.label, "pre@"+name, fmt.Sprintf("%d.%d", site, k), st.PC, t, r.c.Src+" at "+f.pos(ins))
		vc.Assume(Implies(st.PC, t))
	}
	// post state
	heap := st.Heap
	if clauses.modAll {
		heap = f.havocAll(st.Heap)
		for _, k := range fc.Keeps {
			t, err := f.w.ResolveType(k, fc.ScopePkg)
			if err != nil {
				f.fail("keeps %s: %v", k, err)
				continue
			}
			if _, isStruct := t.Underlying().(*types.Struct); !isStruct && fc.Trusted == "" {
				f.fail("keeps of a non-struct type is only allowed on trusted contracts (%s)", name)
				break
			}
			// (for a verified function the clause is checked at its exits, see frameObligation)
			if fc.Trusted == "" && fc.Kind == "interface" {
				vc.Trusted["interface contract "+name+": objects of type "+k+" are left unchanged (assumed of every implementation)"] = true
			}
			if stt, ok := t.Underlying().(*types.Struct); ok {
				// a struct type: the fields of its objects are left unchanged
				so := f.w.Sorts.SortOf(t)
				for i := 0; i < stt.NumFields(); i++ {
					fld := stt.Field(i)
					comp := fieldComp(so, fld.Name())
					heap = heap.Set(comp, st.Heap.Comp(comp, ArraySort(SInt, f.w.Sorts.SortOf(fld.Type()))))
				}
				continue
			}
			comp := memCompT(t)
			es := f.w.Sorts.SortOf(t)
			r := Term{"r!", SInt}
			o, n := st.Heap.Comp(comp, memSort(es)), heap.Comp(comp, memSort(es))
			vc.Assume(Forall([]Term{r}, Implies(Le(r, st.Heap.Comp(allocComp, SInt)), Eq(Sel(n, r), Sel(o, r))), []Term{Sel(n, r)}))
		}
	} else {
		// the callee may allocate: bump the watermark FIRST, so that the type facts
		// of havoc'd locations (references <= alloc) refer to the post-call watermark
		if !clauses.pure {
			na := vc.Fresh("alloc", SInt)
			vc.Assume(Ge(na, st.Heap.Comp(allocComp, SInt)))
			heap = heap.Set(allocComp, na)
		}
		for _, m := range clauses.modifies {
			pre.Scope = m.scope
			var err error
			heap, err = f.havocTarget(pre, m.c, heap, st.Heap)
			if err != nil {
				f.fail("modifies clause of %s: %v", name, err)
			}
		}
	}
	heap = f.havocCapturedByImpureClosures(args, heap, st.Heap)
	var panicked Term
	if clauses.noPanic || clauses.pure {
		panicked = False
	} else {
		panicked = vc.Fresh("panicked", SBool)
	}
	pv := vc.Fresh("pv", SIface)
	nst := State{PC: st.PC, Heap: heap}
	res := f.freshResults(sig, nst)
	post := &SpecEnv{W: f.w, Vars: map[string]SVal{}, Heap: heap, Old: st.Heap, Scope: fc.ScopePkg, Side: vc,
		Normal: Not(panicked), Panics: panicked, PV: pv}
	for k, v := range vars {
		post.Vars[k] = v
	}
	f.bindResults(post.Vars, fc, callee, sig, res)
	for _, e := range clauses.ensures {
		post.Scope = e.scope
		t, err := post.EvalBool(e.c)
		if err != nil {
			f.fail("postcondition of %s: %v", name, err)
			continue
		}
		if !mentionsExit(e.c.E) {
			t = Implies(Not(panicked), t)
		}
		vc.Assume(Implies(st.PC, t))
	}
	for _, e := range clauses.defines {
		post.Scope = e.scope
		t, err := post.EvalBool(e.c)
		if err != nil {
			f.fail("defines clause of %s: %v", name, err)
			continue
		}
		vc.Trusted["definitional clause of "+name+": "+e.c.Src] = true
		if mentionsExit(e.c.E) {
			vc.Assume(Implies(st.PC, t))
		} else {
			vc.Assume(Implies(And(st.PC, Not(panicked)), t))
		}
	}
	if panicked.S != "false" {
		f.exit(Exit{Panic: true, PC: vc.Define("pc", And(st.PC, panicked)), Heap: heap, PV: pv})
		nst.PC = vc.Define("pc", And(st.PC, Not(panicked)))
	}
	return nst, res
}

func (f *Frame) bindResults(vars map[string]SVal, fc *FuncContract, callee *ssa.Function, sig *types.Signature, res Val) {
	n := sig.Results().Len()
	get := func(i int) Val {
		if n == 1 {
			return res
		}
		return res.Tup[i]
	}
	for i := 0; i < n; i++ {
		t := sig.Results().At(i).Type()
		v := get(i)
		if v.Loc != nil {
			continue
		}
		sv := SVal{T: v.T, Go: t}
		vars[fmt.Sprintf("result%d", i)] = sv
		if n == 1 {
			vars["result"] = sv
		}
		if nm := sig.Results().At(i).Name(); nm != "" && nm != "_" {
			if _, shadow := vars[nm]; !shadow {
				vars[nm] = sv
			}
		}
		if i < len(fc.Results) && fc.Results[i].Name != "" {
			vars[fc.Results[i].Name] = sv
		}
	}
}

func mentionsExit(e Expr) bool {
	found := false
	walkExpr(e, func(x Expr) {
		if id, ok := x.(EIdent); ok && (id.Name == "normal" || id.Name == "panics" || id.Name == "pv") {
			found = true
		}
	})
	return found
}

func walkExpr(e Expr, fn func(Expr)) {
	if e == nil {
		return
	}
	fn(e)
	switch x := e.(type) {
	case EUnary:
		walkExpr(x.X, fn)
	case EBinary:
		walkExpr(x.X, fn)
		walkExpr(x.Y, fn)
	case ECond:
		walkExpr(x.C, fn)
		walkExpr(x.A, fn)
		walkExpr(x.B, fn)
	case ECall:
		for _, a := range x.Args {
			walkExpr(a, fn)
		}
	case EIndex:
		walkExpr(x.X, fn)
		walkExpr(x.I, fn)
	case ESlice:
		walkExpr(x.X, fn)
		walkExpr(x.Lo, fn)
		walkExpr(x.Hi, fn)
	case ESel:
		walkExpr(x.X, fn)
	case EOld:
		walkExpr(x.X, fn)
	case EQuant:
		walkExpr(x.Body, fn)
		for _, tr := range x.Triggers {
			for _, t := range tr {
				walkExpr(t, fn)
			}
		}
	case ELet:
		walkExpr(x.Val, fn)
		walkExpr(x.Body, fn)
	}
}

type scopedClause struct {
	c     Clause
	scope string
}

type effContract struct {
	defines                     []scopedClause
	requires, ensures, modifies []scopedClause
	modAll, pure, noPanic       bool
	keeps                       []string // with modAll: struct types whose objects stay unchanged
	scopePkg                    string
}

// effectiveContract merges a function's own clauses with the functype contract
// it refines.
func (w *World) effectiveContract(fc *FuncContract) *effContract {
	ec := &effContract{modAll: fc.ModAll, pure: fc.Pure, noPanic: fc.NoPanic, keeps: fc.Keeps, scopePkg: fc.ScopePkg}
	add := func(c *FuncContract) {
		for _, r := range c.Requires {
			ec.requires = append(ec.requires, scopedClause{r, c.ScopePkg})
		}
		for _, e := range c.Ensures {
			ec.ensures = append(ec.ensures, scopedClause{e, c.ScopePkg})
		}
		for _, m := range c.Modifies {
			ec.modifies = append(ec.modifies, scopedClause{m, c.ScopePkg})
		}
		for _, d := range c.Defines {
			ec.defines = append(ec.defines, scopedClause{d, c.ScopePkg})
		}
		if c.ModAll {
			ec.modAll = true
		}
	}
	if fc.Refines != "" {
		if base := w.findFuncType(fc.Refines, fc.ScopePkg); base != nil {
			add(base)
		}
	}
	if fc.Implements != "" {
		if base := w.findIfaceContract(fc.Implements, fc.ScopePkg); base != nil {
			add(base)
			if base.Pure {
				ec.pure = true
			}
			if base.NoPanic {
				ec.noPanic = true
			}
		}
	}
	add(fc)
	return ec
}

func (w *World) findIfaceContract(name, scope string) *FuncContract {
	if fc := w.NamedC["interface:"+scope+"."+name]; fc != nil {
		return fc
	}
	for k, fc := range w.NamedC {
		if strings.HasPrefix(k, "interface:") && strings.HasSuffix(k, "."+name) {
			return fc
		}
	}
	return nil
}

// selfIface boxes the receiver of a method into an interface value (for
// contracts inherited from an interface method).
func (f *Frame) selfIface(callee *ssa.Function, recv Val) (SVal, bool) {
	if callee == nil || callee.Signature.Recv() == nil || recv.Loc != nil {
		return SVal{}, false
	}
	rt := callee.Signature.Recv().Type()
	return SVal{T: MkIface(IntLit(int64(f.w.Sorts.Tag(rt))), f.w.Sorts.Box(recv.T)), Go: types.NewInterfaceType(nil, nil)}, true
}

func (w *World) findFuncType(name, scope string) *FuncContract {
	if fc := w.NamedC["functype:"+scope+"."+name]; fc != nil {
		return fc
	}
	for k, fc := range w.NamedC {
		if strings.HasPrefix(k, "functype:") && strings.HasSuffix(k, "."+name) {
			return fc
		}
	}
	return nil
}

// havocTarget forgets the location named by a modifies expression.
func (f *Frame) havocTarget(env *SpecEnv, c Clause, heap, pre *Heap) (*Heap, error) {
	vc := f.vc
	e := c.E
	elems := false
	if s, ok := e.(ESel); ok && s.Name == "$elems" {
		elems = true
		e = s.X
	}
	// evaluate the *owner* in the pre-state
	penv := *env
	penv.Heap = pre
	switch x := e.(type) {
	case ESel:
		if !elems {
			owner, err := penv.Eval(x.X)
			if err != nil {
				return heap, err
			}
			return f.havocField(owner, x.Name, heap)
		}
	case EUnary:
		if x.Op == "*" && !elems {
			p, err := penv.Eval(x.X)
			if err != nil {
				return heap, err
			}
			pt, ok := p.Go.Underlying().(*types.Pointer)
			if !ok {
				return heap, fmt.Errorf("modifies *x: x is not a pointer")
			}
			if st, ok := pt.Elem().Underlying().(*types.Struct); ok {
				_ = st
				so := f.w.Sorts.SortOf(pt.Elem())
				for _, fi := range f.w.Sorts.Struct(so).Fields {
					var err error
					heap, err = f.havocField(SVal{T: p.T, Go: pt.Elem(), Ref: true}, fi.Name, heap)
					if err != nil {
						return heap, err
					}
				}
				return heap, nil
			}
			so := f.w.Sorts.SortOf(pt.Elem())
			comp := cellComp(so)
			cs := ArraySort(SInt, so)
			return heap.Set(comp, vc.Define("h."+comp, Store(heap.Comp(comp, cs), p.T, vc.Fresh("hv", so)))), nil
		}
	}
	if elems {
		v, err := penv.Eval(e)
		if err != nil {
			return heap, err
		}
		v = penv.value(v)
		if v.Go == nil {
			return heap, fmt.Errorf("modifies x[*]: untyped x")
		}
		switch u := v.Go.Underlying().(type) {
		case *types.Slice:
			es := f.w.Sorts.SortOf(u.Elem())
			comp := memCompT(u.Elem())
			return heap.Set(comp, vc.Define("h."+comp, Store(heap.Comp(comp, memSort(es)), SArr(v.T), vc.Fresh("hv", ArraySort(SInt, es))))), nil
		case *types.Map:
			ks, vs := f.w.Sorts.SortOf(u.Key()), f.w.Sorts.SortOf(u.Elem())
			md, mv := mapDomComp(ks, vs), mapValComp(ks, vs)
			heap = heap.Set(md, vc.Define("h."+md, Store(heap.Comp(md, ArraySort(SInt, ArraySort(ks, SBool))), v.T, vc.Fresh("hv", ArraySort(ks, SBool)))))
			heap = heap.Set(mv, vc.Define("h."+mv, Store(heap.Comp(mv, ArraySort(SInt, ArraySort(ks, vs))), v.T, vc.Fresh("hv", ArraySort(ks, vs)))))
			sz := vc.Fresh("hv", SInt)
			vc.Assume(Ge(sz, IntLit(0)))
			heap = heap.Set(mapSizeComp(ks, vs), vc.Define("h.MS", Store(heap.Comp(mapSizeComp(ks, vs), ArraySort(SInt, SInt)), v.T, sz)))
			return heap, nil
		}
		return heap, fmt.Errorf("modifies x[*]: x is neither slice nor map")
	}
	return heap, fmt.Errorf("unsupported modifies target %q", c.Src)
}

func (f *Frame) havocField(owner SVal, field string, heap *Heap) (*Heap, error) {
	vc := f.vc
	t := owner.Go
	if t == nil {
		return heap, fmt.Errorf("modifies: untyped owner")
	}
	if p, ok := t.Underlying().(*types.Pointer); ok && !owner.Ref {
		t = p.Elem()
	} else if !owner.Ref {
		return heap, fmt.Errorf("modifies: owner of field %s is not addressable", field)
	}
	so := f.w.Sorts.SortOf(t)
	info := f.w.Sorts.Struct(so)
	if info == nil {
		return heap, fmt.Errorf("modifies: %s is not a struct", typeName(t))
	}
	for _, fi := range info.Fields {
		if fi.Name != field {
			continue
		}
		if fi.Nested {
			inner := SVal{T: subRef(so, fi.Name, owner.T), Go: fi.Type, Ref: true}
			iso := f.w.Sorts.SortOf(fi.Type)
			for _, ifi := range f.w.Sorts.Struct(iso).Fields {
				var err error
				heap, err = f.havocField(inner, ifi.Name, heap)
				if err != nil {
					return heap, err
				}
			}
			return heap, nil
		}
		comp := fieldComp(so, fi.Name)
		cs := ArraySort(SInt, fi.Sort)
		nv := vc.Fresh("hv."+fi.Name, fi.Sort)
		if fi.Type != nil {
			for _, fact := range f.typeFacts(fi.Type, nv, heap) {
				vc.Assume(fact)
			}
		}
		return heap.Set(comp, vc.Define("h."+comp, Store(heap.Comp(comp, cs), owner.T, nv))), nil
	}
	return heap, fmt.Errorf("modifies: %s has no field %s", typeName(t), field)
}

// ---- closures ----

type closureInfo struct {
	fn       *ssa.Function
	bindings map[*ssa.FreeVar]Val
}

func (f *Frame) closureBindings(mc *ssa.MakeClosure) map[*ssa.FreeVar]Val {
	fn := mc.Fn.(*ssa.Function)
	b := map[*ssa.FreeVar]Val{}
	for i, fv := range fn.FreeVars {
		b[fv] = f.val(mc.Bindings[i])
	}
	return b
}

func (f *Frame) makeClosure(ins *ssa.MakeClosure, st State) (Val, State) {
	fn := ins.Fn.(*ssa.Function)
	r, h := f.allocRef(st, ins.Name())
	r = f.vc.Alias("closure", r) // a constant: usable in quantifier patterns
	st.Heap = h
	id := f.w.FnID(fn)
	f.vc.UseFnID(id)
	// guarded by the path condition: closures created on exclusive paths may get the same address
	f.vc.Assume(Implies(st.PC, Eq(App("fncode!", SInt, r), IntLit(int64(id)))))
	if f.closures == nil {
		f.closures = map[string]*closureInfo{}
	}
	f.closures[r.S] = &closureInfo{fn: fn, bindings: f.closureBindings(ins)}
	return Val{T: r}, st
}

// ---- defers ----

func (f *Frame) runDefers(st State, panicking bool) State {
	return f.runDefersCtx(st, &deferCtx{})
}

func (f *Frame) runDefersCtx(st State, ctx *deferCtx) State {
	saved, savedPCs := f.defers, f.deferPCs
	savedCtx := f.dctx
	f.defers, f.deferPCs = nil, nil
	f.dctx = ctx
	for i := len(saved) - 1; i >= 0; i-- {
		reg := savedPCs[i]
		if reg.S == "true" || reg.S == st.PC.S {
			nst, _ := f.call(saved[i], st)
			st = nst
			continue
		}
		// a defer statement reached only on some paths: the call runs exactly on those
		// (it used to run on every path that reached the function's exit)
		if callee := saved[i].Common().StaticCallee(); callee != nil && usesRecover(callee) {
			f.fail("conditionally registered defer of a recovering function is outside the subset")
		}
		active := f.vc.Define("pc", And(st.PC, reg))
		inactive := f.vc.Define("pc", And(st.PC, Not(reg)))
		nst, _ := f.call(saved[i], State{PC: active, Heap: st.Heap})
		pcs := []Term{nst.PC, inactive}
		st = State{PC: f.vc.Define("pc", Or(pcs...)), Heap: f.mergeHeaps(pcs, []*Heap{nst.Heap, st.Heap})}
	}
	f.defers, f.deferPCs = saved, savedPCs
	f.dctx = savedCtx
	return st
}

// ---- builtins ----

func (f *Frame) builtin(b *ssa.Builtin, ins ssa.CallInstruction, st State) (State, Val) {
	vc := f.vc
	args := ins.Common().Args
	switch b.Name() {
	case "len":
		x := f.val(args[0]).T
		switch u := args[0].Type().Underlying().(type) {
		case *types.Slice:
			return st, Val{T: SLen(x)}
		case *types.Basic:
			return st, Val{T: StrLen(x)}
		case *types.Map:
			mks, mvs := f.w.Sorts.SortOf(u.Key()), f.w.Sorts.SortOf(u.Elem())
			return st, Val{T: Ite(Eq(x, IntLit(0)), IntLit(0), Sel(st.Heap.Comp(mapSizeComp(mks, mvs), ArraySort(SInt, SInt)), x))}
		case *types.Array:
			return st, Val{T: IntLit(u.Len())}
		case *types.Pointer:
			if a, ok := u.Elem().Underlying().(*types.Array); ok {
				return st, Val{T: IntLit(a.Len())}
			}
		}
	case "cap":
		x := f.val(args[0]).T
		if _, ok := args[0].Type().Underlying().(*types.Slice); ok {
			return st, Val{T: SCap(x)}
		}
	case "append":
		return f.appendBuiltin(ins, st)
	case "copy":
		return f.copyBuiltin(ins, st)
	case "delete":
		m := f.val(args[0]).T
		k := f.val(args[1]).T
		mt := args[0].Type().Underlying().(*types.Map)
		ks, vs := f.w.Sorts.SortOf(mt.Key()), f.w.Sorts.SortOf(mt.Elem())
		if p, ok := args[0].(*ssa.UnOp); ok {
			f.guardCheckLoaded(p, st, ins)
		}
		mdn := mapDomComp(ks, vs)
		md := st.Heap.Comp(mdn, ArraySort(SInt, ArraySort(ks, SBool)))
		ms := st.Heap.Comp(mapSizeComp(ks, vs), ArraySort(SInt, SInt))
		was := And(Ne(m, IntLit(0)), Sel(Sel(md, m), k))
		// delete on a nil map is a no-op
		nmd := Ite(Eq(m, IntLit(0)), md, Store(md, m, Store(Sel(md, m), k, False)))
		nms := Ite(was, Store(ms, m, Sub(Sel(ms, m), IntLit(1))), ms)
		st.Heap = st.Heap.Set(mdn, vc.Define("h."+mdn, nmd))
		st.Heap = st.Heap.Set(mapSizeComp(ks, vs), vc.Define("h.MS", nms))
		return st, Val{T: IntLit(0)}
	case "recover":
		// recover() inside a deferred call: returns the panic value and stops the
		// panic; nil when the function is not panicking.  The supported idiom calls
		// recover() unconditionally at the start of the deferred function.
		if f.dctx == nil && f.noRecover {
			return st, Val{T: f.w.Sorts.Zero(SIface)}
		}
		if f.dctx == nil {
			// verified standalone: whether the caller is panicking is unknown, so the
			// result is an arbitrary interface value (sound over-approximation)
			if f.recoveredVal.IsZero() {
				f.recoveredVal = vc.Fresh("recovered", SIface)
				for _, fact := range f.w.staticTypeFacts(types.NewInterfaceType(nil, nil), f.recoveredVal) {
					vc.Assume(fact)
				}
			}
			return st, Val{T: f.recoveredVal}
		}
		if ins.Block().Index != 0 {
			f.fail("conditional recover() is outside the subset")
			vc.Outside["conditional recover"] = true
		}
		if f.dctx.panicking {
			f.dctx.recovered = true
			return st, Val{T: f.dctx.pv}
		}
		return st, Val{T: f.w.Sorts.Zero(SIface)}
	case "print", "println":
		return st, Val{T: IntLit(0)}
	case "min", "max":
		if len(args) == 2 && isInteger(args[0].Type()) {
			a, c := f.val(args[0]).T, f.val(args[1]).T
			if b.Name() == "min" {
				return st, Val{T: Ite(Le(a, c), a, c)}
			}
			return st, Val{T: Ite(Ge(a, c), a, c)}
		}
	}
	f.fail("unsupported builtin %s", b.Name())
	vc.Outside["builtin "+b.Name()] = true
	if v, ok := ins.(ssa.Value); ok {
		return st, Val{T: vc.Fresh("builtin", f.w.Sorts.SortOf(v.Type()))}
	}
	return st, Val{T: IntLit(0)}
}

// elemAccess returns (len, accessor) for the second append/copy operand.
func (f *Frame) seqOperand(v ssa.Value, st State) (n Term, at func(i Term) Term, es Sort) {
	x := f.val(v).T
	switch u := v.Type().Underlying().(type) {
	case *types.Slice:
		es = f.w.Sorts.SortOf(u.Elem())
		m := st.Heap.Comp(memCompT(u.Elem()), memSort(es))
		arr := f.vc.Alias("srcarr", Sel(m, SArr(x)))
		off := f.vc.Alias("srcoff", SOff(x))
		return SLen(x), func(i Term) Term { return f.w.Sorts.Elt(arr, off, i) }, es
	case *types.Basic:
		return StrLen(x), func(i Term) Term { return StrAt(x, i) }, SInt
	}
	f.fail("unsupported sequence operand %s", typeName(v.Type()))
	return IntLit(0), func(i Term) Term { return IntLit(0) }, SInt
}

// staticLen returns the compile-time length of a variadic argument slice.
func staticLen(v ssa.Value) (int64, bool) {
	if sl, ok := v.(*ssa.Slice); ok && sl.Low == nil && sl.High == nil {
		if al, ok := sl.X.(*ssa.Alloc); ok {
			if a, ok := al.Type().Underlying().(*types.Pointer).Elem().Underlying().(*types.Array); ok {
				return a.Len(), true
			}
		}
	}
	if c, ok := v.(*ssa.Const); ok && c.Value == nil {
		return 0, true
	}
	return 0, false
}

func (f *Frame) appendBuiltin(ins ssa.CallInstruction, st State) (State, Val) {
	vc := f.vc
	args := ins.Common().Args
	s0 := f.val(args[0]).T
	s := MkSlice(vc.Alias("sarr", SArr(s0)), vc.Alias("soff", SOff(s0)), vc.Alias("slen", SLen(s0)), vc.Alias("scap", SCap(s0)))
	st0 := st
	n, at, _ := f.seqOperand(args[1], st)
	es := f.w.Sorts.SortOf(args[0].Type().Underlying().(*types.Slice).Elem())
	comp := memCompT(args[0].Type().Underlying().(*types.Slice).Elem())
	ms := memSort(es)
	as := ArraySort(SInt, es)
	m := st.Heap.Comp(comp, ms)
	if ld, ok := args[0].(*ssa.UnOp); ok {
		f.guardCheckLoaded(ld, st, ins)
	}
	newLen := vc.Define("newlen", Add(SLen(s), n))
	fits := vc.Define("fits", Le(newLen, SCap(s)))
	oldArr := vc.Alias("oldarr", Sel(m, SArr(s)))
	base := vc.Alias("base", Add(SOff(s), SLen(s)))
	n = vc.Alias("n", n)
	// in-place array
	S := f.w.Sorts
	o, j := Term{"o", SInt}, Term{"j", SInt}
	var inPlace Term
	if k, ok := staticLen(args[1]); ok && k <= 4 {
		inPlace = oldArr
		for i := int64(0); i < k; i++ {
			inPlace = Store(inPlace, Add(base, IntLit(i)), at(IntLit(i)))
		}
	} else {
		a := vc.Fresh("appended", as)
		pos := Add(o, j)
		vc.Assume(Forall([]Term{o, j}, Eq(S.Elt(a, o, j), Ite(And(Le(base, pos), Lt(pos, Add(base, n))),
			at(Sub(pos, base)), S.Elt(oldArr, o, j))), []Term{S.Elt(a, o, j)}, []Term{S.Elt(oldArr, o, j)}))
		// source-side trigger: every source element lands behind the old contents
		vc.Assume(Forall([]Term{j}, Implies(And(Le(IntLit(0), j), Lt(j, n)), Eq(S.Elt(a, SOff(s), Add(SLen(s), j)), at(j))), []Term{at(j)}))
		inPlace = a
	}
	// fresh array
	ref, h := f.allocRef(st, "grown")
	fresh := vc.Fresh("grownarr", as)
	{
		pos := Add(o, j)
		vc.Assume(Forall([]Term{o, j}, And(
			Implies(And(Le(IntLit(0), pos), Lt(pos, SLen(s))), Eq(S.Elt(fresh, o, j), S.Elt(oldArr, SOff(s), pos))),
			Implies(And(Le(SLen(s), pos), Lt(pos, newLen)), Eq(S.Elt(fresh, o, j), at(Sub(pos, SLen(s)))))), []Term{S.Elt(fresh, o, j)}))
		vc.Assume(Forall([]Term{j}, Implies(And(Le(IntLit(0), j), Lt(j, SLen(s))), Eq(S.Elt(fresh, IntLit(0), j), S.Elt(oldArr, SOff(s), j))),
			[]Term{S.Elt(oldArr, SOff(s), j)}))
		vc.Assume(Forall([]Term{j}, Implies(And(Le(IntLit(0), j), Lt(j, n)), Eq(S.Elt(fresh, IntLit(0), Add(SLen(s), j)), at(j))), []Term{at(j)}))
	}
	ncap := vc.Fresh("newcap", SInt)
	vc.Assume(Ge(ncap, newLen))
	// nil/empty append of nothing keeps the slice
	resInPlace := MkSlice(SArr(s), SOff(s), newLen, SCap(s))
	resFresh := MkSlice(ref, IntLit(0), newLen, ncap)
	res := vc.Define("appendres", Ite(fits, resInPlace, resFresh))
	newM := Ite(fits, Store(m, SArr(s), inPlace), Store(m, ref, fresh))
	newMd := vc.Define("h."+comp, newM)
	st.Heap = h.Set(comp, newMd)
	// Redundant "result view" facts with clean triggers (they follow from the
	// two cases above): the old elements are a prefix of the result, the
	// appended elements follow.
	resArr := vc.Alias("resarr", Sel(newMd, SArr(res)))
	resOff := vc.Alias("resoff", SOff(res))
	{
		jj := Term{"j", SInt}
		vc.Assume(Forall([]Term{jj}, Implies(And(Le(IntLit(0), jj), Lt(jj, SLen(s))),
			Eq(S.Elt(resArr, resOff, jj), S.Elt(oldArr, SOff(s), jj))),
			[]Term{S.Elt(resArr, resOff, jj)}, []Term{S.Elt(oldArr, SOff(s), jj)}))
		if k, ok := staticLen(args[1]); ok && k <= 4 {
			for i := int64(0); i < k; i++ {
				vc.Assume(Eq(S.Elt(resArr, resOff, Add(SLen(s), IntLit(i))), at(IntLit(i))))
			}
		} else {
			vc.Assume(Forall([]Term{jj}, Implies(And(Le(IntLit(0), jj), Lt(jj, n)),
				Eq(S.Elt(resArr, resOff, Add(SLen(s), jj)), at(jj))), []Term{at(jj)}))
		}
	}
	_ = st0
	return st, Val{T: res}
}

func (f *Frame) copyBuiltin(ins ssa.CallInstruction, st State) (State, Val) {
	vc := f.vc
	args := ins.Common().Args
	d0 := f.val(args[0]).T
	d := MkSlice(vc.Alias("darr", SArr(d0)), vc.Alias("doff", SOff(d0)), vc.Alias("dlen", SLen(d0)), vc.Alias("dcap", SCap(d0)))
	n0, at, _ := f.seqOperand(args[1], st)
	es := f.w.Sorts.SortOf(args[0].Type().Underlying().(*types.Slice).Elem())
	comp := memCompT(args[0].Type().Underlying().(*types.Slice).Elem())
	m := st.Heap.Comp(comp, memSort(es))
	n := vc.Alias("ncopy", Ite(Le(SLen(d), n0), SLen(d), n0))
	oldArr := vc.Alias("dstarr", Sel(m, SArr(d)))
	a := vc.Fresh("copied", ArraySort(SInt, es))
	o, j := Term{"o", SInt}, Term{"j", SInt}
	pos := Add(o, j)
	vc.Assume(Forall([]Term{o, j}, Eq(f.w.Sorts.Elt(a, o, j), Ite(And(Le(SOff(d), pos), Lt(pos, Add(SOff(d), n))),
		at(Sub(pos, SOff(d))), f.w.Sorts.Elt(oldArr, o, j))), []Term{f.w.Sorts.Elt(a, o, j)}, []Term{f.w.Sorts.Elt(oldArr, o, j)}))
	st.Heap = st.Heap.Set(comp, vc.Define("h."+comp, Store(m, SArr(d), a)))
	return st, Val{T: n}
}

// ---- map / string range (non-deterministic order) ----

func (f *Frame) rangeInit(ins *ssa.Range, st State) (Val, State) {
	// the iterator itself has no effect; an unsupported use is reported at Next
	return Val{T: IntLit(0)}, st
}

func (f *Frame) rangeNext(ins *ssa.Next, st State) (Val, State) {
	f.fail("range over map/string is not supported (only the map-clearing idiom is)")
	f.vc.Outside["range over map or string"] = true
	tt := ins.Type().(*types.Tuple)
	var v Val
	for i := 0; i < tt.Len(); i++ {
		c := f.vc.Fresh("next", f.w.Sorts.SortOf(tt.At(i).Type()))
		v.Tup = append(v.Tup, Val{T: c})
	}
	return v, st
}

// onceDo models sync.Once.Do sequentially: the function runs iff the (ghost)
// done flag is clear, and the flag is set afterwards (also when f panics).
func (f *Frame) onceDo(once, fn Val, callee *ssa.Function, st State, ins ssa.CallInstruction) (State, Val) {
	vc := f.vc
	vc.Trusted["sync.Once is correct: Do(f) runs f exactly when no earlier Do has run (sequential model, ghost field done)"] = true
	ot, err := f.w.ResolveType("sync.Once", "")
	if err != nil {
		f.fail("sync.Once: %v", err)
		return st, Val{T: IntLit(0)}
	}
	so := f.w.Sorts.SortOf(ot)
	info := f.w.Sorts.Struct(so)
	if _, ok := info.Ghost["fired"]; !ok {
		f.fail("ghost field sync.Once.fired is not declared")
		return st, Val{T: IntLit(0)}
	}
	comp := fieldComp(so, "fired")
	cs := ArraySort(SInt, SBool)
	f.safety("nil", st, Ne(once.T, IntLit(0)), "nil *sync.Once at "+f.pos(ins))
	done := vc.Define("once.done", Sel(st.Heap.Comp(comp, cs), once.T))
	// path B: not yet done → run fn, then set done
	stB := State{PC: vc.Define("pc", And(st.PC, Not(done))), Heap: st.Heap}
	// the flag is set before f returns (a panicking f still counts as done)
	stB.Heap = stB.Heap.Set(comp, vc.Define("h."+comp, Store(stB.Heap.Comp(comp, cs), once.T, True)))
	var after State
	if cl, ok := f.closures[fn.T.S]; ok {
		sig := cl.fn.Signature
		after, _ = f.callFunction(cl.fn, nil, cl.bindings, sig, stB, ins)
	} else {
		sig := types.NewSignatureType(nil, nil, nil, nil, nil, false)
		after, _ = f.callbackCall(fn.T, nil, sig, stB, ins)
	}
	stA := State{PC: vc.Define("pc", And(st.PC, done)), Heap: st.Heap}
	if after.PC.S == "false" {
		return stA, Val{T: IntLit(0)}
	}
	pcs := []Term{stA.PC, vc.Define("pc", after.PC)}
	heap := f.mergeHeaps(pcs, []*Heap{stA.Heap, after.Heap})
	return State{PC: vc.Define("pc", Or(pcs...)), Heap: heap}, Val{T: IntLit(0)}
}

// closureSummaries: a closure created in this frame and passed to a function
// under contract is described to the callee's callback model (app/apppanics)
// by the closure's OWN contract, which is verified separately against the
// closure body.  For the closure value r and contract clauses E:
//
//	forall args. typing(args) && requires(args) ==> E[panics := apppanics(r,args), result_i := app_i(r,args)]
//
// evaluated in the heap of the call site (the callback model assumes callbacks
// do not depend on state the callee changes; listed as an assumption).
func (f *Frame) closureSummaries(args []Val, st State) {
	vc := f.vc
	for _, a := range args {
		if a.Loc != nil || len(a.Tup) > 0 {
			continue
		}
		cl, ok := f.closures[a.T.S]
		if !ok {
			continue
		}
		gfc := f.w.ContractOf(cl.fn)
		var recvName string
		var recvVal *Val
		var recvType types.Type
		if gfc == nil && strings.HasPrefix(cl.fn.Synthetic, "bound method wrapper") && len(cl.fn.FreeVars) == 1 {
			// method value x.m: described by the contract of the method m with receiver x
			if obj, ok := cl.fn.Object().(*types.Func); ok {
				if m := f.w.Prog.FuncValue(obj); m != nil {
					gfc = f.w.ContractOf(m)
					if bv, ok := cl.bindings[cl.fn.FreeVars[0]]; ok && bv.Loc == nil && len(bv.Tup) == 0 && len(m.Params) > 0 {
						recvName = m.Params[0].Name()
						recvType = m.Params[0].Type()
						v := bv
						recvVal = &v
					}
				}
			}
		}
		if gfc != nil && !gfc.Inline && gfc.NoPanic && (gfc.ModAll || len(gfc.Modifies) > 0) {
			// a closure with side effects that never panics: only the no-panic fact is usable
			k2 := "cbnp!" + a.T.S
			if !f.vc.declared[k2] {
				f.vc.declared[k2] = true
				var qv2 []Term
				as2 := []Term{a.T}
				sorts2 := []string{"Int"}
				for i, p := range cl.fn.Params {
					so := f.w.Sorts.SortOf(p.Type())
					q := Term{fmt.Sprintf("cbn!%d!%d", vc.Ordinal("cbnp"), i), so}
					qv2 = append(qv2, q)
					as2 = append(as2, q)
					sorts2 = append(sorts2, string(so))
				}
				pn := App(f.w.AppFun("apppanics", sorts2, SBool, 0), SBool, as2...)
				vc.Assume(Forall(qv2, Not(pn), []Term{pn}))
			}
			continue
		}
		if gfc == nil || gfc.Inline || gfc.ModAll || len(gfc.Modifies) > 0 {
			continue
		}
		key := "cbsum!" + a.T.S
		if f.vc.declared[key] {
			continue
		}
		f.vc.declared[key] = true
		n := vc.Ordinal("cbsum")
		vars := map[string]SVal{}
		var qv []Term
		var typing []Term
		as := []Term{a.T}
		sorts := []string{"Int"}
		bad := false
		for i, p := range cl.fn.Params {
			so := f.w.Sorts.SortOf(p.Type())
			q := Term{fmt.Sprintf("cb!%d!%d", n, i), so}
			qv = append(qv, q)
			as = append(as, q)
			sorts = append(sorts, string(so))
			typing = append(typing, f.w.staticTypeFacts(p.Type(), q)...)
			if p.Name() != "" && p.Name() != "_" {
				vars[p.Name()] = SVal{T: q, Go: p.Type()}
			}
			if i < len(gfc.Params) && gfc.Params[i].Name != "" && gfc.Params[i].Name != "_" {
				vars[gfc.Params[i].Name] = SVal{T: q, Go: p.Type()}
			}
		}
		if recvVal != nil {
			if recvName != "" && recvName != "_" {
				vars[recvName] = SVal{T: recvVal.T, Go: recvType}
			}
			// contract header names of the method: (recv) params...; wrapper params are the method's without the receiver
			for i, p := range cl.fn.Params {
				if i < len(gfc.Params) && gfc.Params[i].Name != "" && gfc.Params[i].Name != "_" {
					vars[gfc.Params[i].Name] = SVal{T: qv[i], Go: p.Type()}
				}
			}
		}
		for fv, bv := range cl.bindings {
			if recvVal != nil {
				break
			}
			pt, ok := fv.Type().Underlying().(*types.Pointer)
			if !ok {
				if bv.Loc == nil && len(bv.Tup) == 0 {
					vars[fv.Name()] = SVal{T: bv.T, Go: fv.Type()}
				}
				continue
			}
			if _, isStruct := pt.Elem().Underlying().(*types.Struct); isStruct && bv.Loc == nil {
				vars[fv.Name()] = SVal{T: bv.T, Go: pt.Elem(), Ref: true}
				continue
			}
			lv, ok := f.tryLoad(bv, pt.Elem(), st.Heap)
			if !ok {
				continue
			}
			vars[fv.Name()] = SVal{T: lv, Go: pt.Elem()}
		}
		sig := cl.fn.Signature
		panicked := App(f.w.AppFun("apppanics", sorts, SBool, 0), SBool, as...)
		if gfc.NoPanic || gfc.Pure {
			vc.Assume(Forall(qv, Not(panicked), []Term{panicked}))
		}
		pats := [][]Term{{panicked}}
		for i := 0; i < sig.Results().Len(); i++ {
			t := sig.Results().At(i).Type()
			so := f.w.Sorts.SortOf(t)
			r := App(f.w.AppFun("app", sorts, so, i), so, as...)
			pats = append(pats, []Term{r})
			sv := SVal{T: r, Go: t}
			vars[fmt.Sprintf("result%d", i)] = sv
			if sig.Results().Len() == 1 {
				vars["result"] = sv
			}
			if nm := sig.Results().At(i).Name(); nm != "" && nm != "_" {
				vars[nm] = sv
			}
		}
		env := &SpecEnv{W: f.w, Vars: vars, Heap: st.Heap, Old: st.Heap, Scope: gfc.ScopePkg, Side: vc,
			Normal: Not(panicked), Panics: panicked, PV: App(f.w.AppFun("apppv", sorts, SIface, 0), SIface, as...)}
		ante := append([]Term{}, typing...)
		for _, r := range gfc.Requires {
			t, err := env.EvalBool(r)
			if err != nil {
				f.fail("closure summary of %s: %v", cl.fn.Name(), err)
				bad = true
				break
			}
			ante = append(ante, t)
		}
		if bad {
			continue
		}
		var posts []Term
		for _, e := range gfc.Ensures {
			t, err := env.EvalBool(e)
			if err != nil {
				f.fail("closure summary of %s: %v", cl.fn.Name(), err)
				bad = true
				break
			}
			if !mentionsExit(e.E) {
				t = Implies(Not(panicked), t)
			}
			posts = append(posts, t)
		}
		if bad || len(posts) == 0 {
			continue
		}
		vc.Trusted["callbacks are pure, deterministic and do not depend on state the callee changes (closure summary of "+fnDisplay(cl.fn)+")"] = true
		vc.Comment("closure summary of " + fnDisplay(cl.fn))
		// not guarded by the path condition: a fact about the closure in this heap, needed on every later path
		vc.Assume(Forall(qv, Implies(And(ante...), And(posts...)), pats...))
	}
}

// closureSummariesAll emits the summary of every closure created in this frame.
func (f *Frame) closureSummariesAll(st State) {
	var keys []string
	for k := range f.closures {
		keys = append(keys, k)
	}
	sort.Strings(keys)
	var vals []Val
	for _, k := range keys {
		vals = append(vals, Val{T: Term{k, SInt}})
	}
	f.closureSummaries(vals, st)
}

// havocCapturedByImpureClosures: a closure passed to a function under contract
// may be run by it; if the closure writes a variable it captured by reference,
// that variable has an arbitrary (well-typed) value afterwards.  (The callback
// model treats callbacks as pure; this keeps the caller's view sound when they
// are not.)
func (f *Frame) havocCapturedByImpureClosures(args []Val, h *Heap, pre *Heap) *Heap {
	for _, a := range args {
		if a.Loc != nil || len(a.Tup) > 0 {
			continue
		}
		cl, ok := f.closures[a.T.S]
		if !ok {
			continue
		}
		for _, fv := range cl.fn.FreeVars {
			pt, isPtr := fv.Type().Underlying().(*types.Pointer)
			if !isPtr || !closureWrites(cl.fn, fv) {
				continue
			}
			bv, ok := cl.bindings[fv]
			if !ok {
				continue
			}
			f.vc.Trusted["a closure with side effects on captured variables was passed to a function under contract: the variables are havocked afterwards ("+fnDisplay(cl.fn)+")"] = true
			nv := f.vc.Fresh("captured."+fv.Name(), f.w.Sorts.SortOf(pt.Elem()))
			for _, fact := range f.typeFacts(pt.Elem(), nv, h) {
				f.vc.Assume(fact)
			}
			if _, isStruct := pt.Elem().Underlying().(*types.Struct); isStruct && bv.Loc == nil {
				continue // struct captured by reference: fields are covered by the callee's frame rules
			}
			// `x = append(x, ...)` is the only write: the new backing array is the old one or a fresh one
			if _, isSlice := pt.Elem().Underlying().(*types.Slice); isSlice && closureOnlyAppends(cl.fn, fv) {
				if ov, ok := f.tryLoad(bv, pt.Elem(), pre); ok {
					f.vc.Assume(Or(Eq(SArr(nv), SArr(ov)), Gt(SArr(nv), pre.Comp(allocComp, SInt))))
				}
			}
			h = f.store(bv, pt.Elem(), nv, h)
		}
	}
	return h
}

// closureWrites: the closure (or a closure nested in it) stores through the captured variable.
func closureWrites(fn *ssa.Function, fv *ssa.FreeVar) bool {
	for _, b := range fn.Blocks {
		for _, ins := range b.Instrs {
			switch x := ins.(type) {
			case *ssa.Store:
				if x.Addr == fv {
					return true
				}
			case *ssa.MakeClosure:
				for _, bnd := range x.Bindings {
					if bnd == fv {
						return true
					}
				}
			}
		}
	}
	return false
}

// closureOnlyAppends: every store to the captured slice variable stores append(<that variable>, ...).
func closureOnlyAppends(fn *ssa.Function, fv *ssa.FreeVar) bool {
	for _, b := range fn.Blocks {
		for _, ins := range b.Instrs {
			switch x := ins.(type) {
			case *ssa.Store:
				if x.Addr != fv {
					continue
				}
				c, ok := x.Val.(*ssa.Call)
				if !ok {
					return false
				}
				bi, ok := c.Call.Value.(*ssa.Builtin)
				if !ok || bi.Name() != "append" {
					return false
				}
				ld, ok := c.Call.Args[0].(*ssa.UnOp)
				if !ok || ld.X != fv {
					return false
				}
			case *ssa.MakeClosure:
				for _, bnd := range x.Bindings {
					if bnd == fv {
						return false
					}
				}
			}
		}
	}
	return true
}

// derivesFromParam: the value is a parameter / captured variable of function
// type, possibly through phis and loads of captured cells.
func derivesFromParam(v ssa.Value, depth int) bool {
	if depth > 6 {
		return false
	}
	switch x := v.(type) {
	case *ssa.Parameter, *ssa.FreeVar:
		return true
	case *ssa.Phi:
		for _, e := range x.Edges {
			if !derivesFromParam(e, depth+1) {
				return false
			}
		}
		return true
	case *ssa.UnOp:
		if _, ok := x.X.(*ssa.FreeVar); ok {
			return true
		}
		if a, ok := x.X.(*ssa.Alloc); ok {
			// a parameter spilled to a cell
			for _, r := range *a.Referrers() {
				if st, ok := r.(*ssa.Store); ok && st.Addr == a {
					if !derivesFromParam(st.Val, depth+1) {
						return false
					}
				}
			}
			return true
		}
	case *ssa.ChangeType:
		return derivesFromParam(x.X, depth+1)
	}
	return false
}

// fieldFuncKey: v is a load of a function-valued field of a named struct; the
// key of a contract for that field and the struct pointer.
func (f *Frame) fieldFuncKey(v ssa.Value) (string, Val, bool) {
	ld, ok := v.(*ssa.UnOp)
	if !ok || ld.Op != token.MUL {
		return "", Val{}, false
	}
	fa, ok := ld.X.(*ssa.FieldAddr)
	if !ok {
		return "", Val{}, false
	}
	return f.fieldFuncKeyOfAddr(fa)
}

func (f *Frame) fieldFuncKeyOfAddr(fa *ssa.FieldAddr) (string, Val, bool) {
	pt, ok := fa.X.Type().Underlying().(*types.Pointer)
	if !ok {
		return "", Val{}, false
	}
	nt, ok := pt.Elem().(*types.Named)
	if !ok || nt.Obj().Pkg() == nil {
		return "", Val{}, false
	}
	st, ok := nt.Underlying().(*types.Struct)
	if !ok {
		return "", Val{}, false
	}
	if _, isSig := st.Field(fa.Field).Type().Underlying().(*types.Signature); !isSig {
		return "", Val{}, false
	}
	key := "functype:" + nt.Obj().Pkg().Path() + "." + nt.Obj().Name() + "." + st.Field(fa.Field).Name()
	self, ok := f.env[fa.X]
	if !ok || self.Loc != nil {
		return "", Val{}, false
	}
	return key, self, true
}

// fieldFuncStoreCheck: a value stored into a field that has a functype contract
// must be a method value x.m with x the very object holding the field and m
// declared to refine the field's contract.
func (f *Frame) fieldFuncStoreCheck(ins *ssa.Store) {
	fa, ok := ins.Addr.(*ssa.FieldAddr)
	if !ok {
		return
	}
	key, _, ok := f.fieldFuncKeyOfAddr(fa)
	if !ok || f.w.NamedC[key] == nil {
		return
	}
	name := key[strings.LastIndex(key[:strings.LastIndex(key, ".")], ".")+1:] // Struct.field
	mc, ok := ins.Val.(*ssa.MakeClosure)
	if !ok {
		if c, isConst := ins.Val.(*ssa.Const); isConst && c.IsNil() {
			return
		}
		f.fail("store into %s: the value is not a method value (the field has a functype contract)", name)
		return
	}
	fn := mc.Fn.(*ssa.Function)
	if !strings.HasPrefix(fn.Synthetic, "bound method wrapper") || len(mc.Bindings) != 1 || mc.Bindings[0] != fa.X {
		f.fail("store into %s: the method value is not bound to the object holding the field", name)
		return
	}
	obj, _ := fn.Object().(*types.Func)
	m := f.w.Prog.FuncValue(obj)
	mfc := f.w.ContractOf(m)
	if mfc == nil || mfc.Refines != name {
		f.fail("store into %s: method %s does not declare `refines %s`", name, fnDisplay(m), name)
	}
}

// fieldFuncKeyStatic: like fieldFuncKeyOfAddr but without needing the symbolic value of the base.
func (f *Frame) fieldFuncKeyStatic(fa *ssa.FieldAddr) (string, bool, bool) {
	pt, ok := fa.X.Type().Underlying().(*types.Pointer)
	if !ok {
		return "", false, false
	}
	nt, ok := pt.Elem().(*types.Named)
	if !ok || nt.Obj().Pkg() == nil {
		return "", false, false
	}
	st, ok := nt.Underlying().(*types.Struct)
	if !ok {
		return "", false, false
	}
	if _, isSig := st.Field(fa.Field).Type().Underlying().(*types.Signature); !isSig {
		return "", false, false
	}
	return "functype:" + nt.Obj().Pkg().Path() + "." + nt.Obj().Name() + "." + st.Field(fa.Field).Name(), true, true
}
