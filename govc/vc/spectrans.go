package vc

import (
	"fmt"
	"go/constant"
	"go/types"
	"sort"
	"strings"
)

// SVal is the value of a spec expression.
type SVal struct {
	T   Term
	Go  types.Type // may be nil for pure spec values
	Ref bool       // T is the address of a heap struct of type Go (an lvalue)
}

// HeapView gives access to heap components by name.
type HeapView interface {
	Comp(name string, sort Sort) Term
}

// SpecEnv is the evaluation environment of a spec expression.
type SpecEnv struct {
	W      *World
	Vars   map[string]SVal
	Heap   HeapView
	Old    HeapView
	Scope  string
	Normal Term // zero Term if not in a postcondition
	Panics Term
	PV     Term
	Side   SideSink // receives side declarations (string literals, used specs)
}

// SideSink collects declarations that must precede the use of a term.
type SideSink interface {
	UseSpec(name string)
	UseStrLit(s string) Term
	UseFnID(id int)
}

func (e *SpecEnv) with(name string, v SVal) *SpecEnv {
	n := *e
	n.Vars = map[string]SVal{}
	for k, x := range e.Vars {
		n.Vars[k] = x
	}
	n.Vars[name] = v
	return &n
}

type specErr struct{ msg string }

func (s specErr) Error() string { return s.msg }

func sfail(f string, a ...any) { panic(specErr{fmt.Sprintf(f, a...)}) }

// Eval translates a spec expression; errors are returned, not panicked.
func (e *SpecEnv) Eval(x Expr) (v SVal, err error) {
	defer func() {
		if r := recover(); r != nil {
			if se, ok := r.(specErr); ok {
				err = se
				return
			}
			panic(r)
		}
	}()
	return e.eval(x), nil
}

// EvalBool translates a boolean clause.
func (e *SpecEnv) EvalBool(c Clause) (Term, error) {
	v, err := e.Eval(c.E)
	if err != nil {
		return Term{}, fmt.Errorf("%s:%d: %v (in %q)", c.File, c.Line, err, c.Src)
	}
	if v.T.Sort != SBool {
		return Term{}, fmt.Errorf("%s:%d: clause is not boolean: %q", c.File, c.Line, c.Src)
	}
	return v.T, nil
}

func (e *SpecEnv) value(v SVal) SVal {
	// turn an lvalue struct reference into a struct value
	if v.Ref {
		st := v.Go.Underlying().(*types.Struct)
		so := e.W.Sorts.SortOf(v.Go)
		return SVal{T: loadStruct(e.W, e.Heap, so, st, v.T), Go: v.Go}
	}
	return v
}

func loadStruct(w *World, h HeapView, so Sort, st *types.Struct, ref Term) Term {
	info := w.Sorts.Struct(so)
	var fields []Term
	for _, f := range info.Fields {
		if f.Nested {
			fso := f.Sort
			fields = append(fields, loadStruct(w, h, fso, f.Type.Underlying().(*types.Struct), subRef(so, f.Name, ref)))
		} else {
			fields = append(fields, Sel(h.Comp(fieldComp(so, f.Name), ArraySort(SInt, f.Sort)), ref))
		}
	}
	return w.Sorts.MkStruct(so, fields)
}

func fieldComp(so Sort, field string) string { return "F!" + string(so) + "!" + field }

// memCompT names the heap component holding the backing arrays whose element
// type is t.  Arrays of different Go element types can never alias (no unsafe
// code in the verified subset), so they live in different components.
func memCompT(t types.Type) string {
	t = types.Unalias(t)
	if b, ok := t.(*types.Basic); ok {
		t = types.Typ[b.Kind()] // byte ≡ uint8, rune ≡ int32
	}
	n := "M!" + sanitize(typeName(t))
	compElemTypes[n] = t
	return n
}

// compElemTypes remembers the Go element type of every M! component (VC
// generation is single-threaded).
var compElemTypes = map[string]types.Type{}

func cellComp(so Sort) string     { return "P!" + sanitize(string(so)) }
func mapDomComp(k, v Sort) string { return "MD!" + sanitize(string(k)) + "!" + sanitize(string(v)) }
func mapValComp(k, v Sort) string { return "MV!" + sanitize(string(k)) + "!" + sanitize(string(v)) }

// mapSizeComp: map sizes, one component per (key sort, value sort) like the
// domain/value components, so that maps of different types never alias
func mapSizeComp(ks, vs Sort) string {
	return "MS!" + sanitize(string(ks)) + "!" + sanitize(string(vs))
}

const allocComp = "alloc"

func memSort(elem Sort) Sort { return ArraySort(SInt, ArraySort(SInt, elem)) }

// subRef is the address of the nested struct field `field` of the heap struct at ref.
func subRef(so Sort, field string, ref Term) Term {
	return App("sub!"+string(so)+"!"+field, SInt, ref)
}

func (e *SpecEnv) eval(x Expr) SVal {
	switch x := x.(type) {
	case EInt:
		return SVal{T: Term{x.Val, SInt}}
	case EBool:
		return SVal{T: BoolLit(x.Val), Go: types.Typ[types.Bool]}
	case ENil:
		return SVal{T: IntLit(0)}
	case EStr:
		return SVal{T: e.Side.UseStrLit(x.Val), Go: types.Typ[types.String]}
	case EIdent:
		return e.ident(x.Name)
	case EOld:
		if e.Old == nil {
			sfail("old() not allowed here")
		}
		n := *e
		n.Heap = e.Old
		return n.eval(x.X)
	case EUnary:
		switch x.Op {
		case "!":
			return SVal{T: Not(e.boolOf(x.X)), Go: types.Typ[types.Bool]}
		case "-":
			return SVal{T: Neg(e.intOf(x.X))}
		case "*":
			v := e.eval(x.X)
			if v.Go == nil {
				sfail("dereference of untyped value")
			}
			p, ok := v.Go.Underlying().(*types.Pointer)
			if !ok {
				sfail("dereference of non-pointer")
			}
			if _, ok := p.Elem().Underlying().(*types.Struct); ok {
				return SVal{T: v.T, Go: p.Elem(), Ref: true}
			}
			so := e.W.Sorts.SortOf(p.Elem())
			return SVal{T: Sel(e.Heap.Comp(cellComp(so), ArraySort(SInt, so)), v.T), Go: p.Elem()}
		}
	case EBinary:
		return e.binary(x)
	case ECond:
		c := e.boolOf(x.C)
		a := e.value(e.eval(x.A))
		b := e.value(e.eval(x.B))
		if a.T.Sort != b.T.Sort {
			sfail("branches of ?: have different sorts %s / %s", a.T.Sort, b.T.Sort)
		}
		return SVal{T: Ite(c, a.T, b.T), Go: a.Go}
	case ELet:
		v := e.eval(x.Val)
		return e.with(x.Name, v).eval(x.Body)
	case EQuant:
		return e.quant(x)
	case ESel:
		return e.sel(x)
	case EIndex:
		return e.index(x)
	case ESlice:
		return e.slice(x)
	case ECall:
		return e.call(x)
	}
	sfail("unsupported expression %T", x)
	return SVal{}
}

func (e *SpecEnv) boolOf(x Expr) Term {
	v := e.eval(x)
	if v.T.Sort != SBool {
		sfail("expected boolean, got sort %s", v.T.Sort)
	}
	return v.T
}

func (e *SpecEnv) intOf(x Expr) Term {
	v := e.eval(x)
	if v.T.Sort != SInt {
		sfail("expected integer, got sort %s", v.T.Sort)
	}
	return v.T
}

func (e *SpecEnv) ident(name string) SVal {
	if v, ok := e.Vars[name]; ok {
		return v
	}
	switch name {
	case "normal":
		if !e.Normal.IsZero() {
			return SVal{T: e.Normal, Go: types.Typ[types.Bool]}
		}
	case "panics":
		if !e.Panics.IsZero() {
			return SVal{T: e.Panics, Go: types.Typ[types.Bool]}
		}
	case "pv":
		if !e.PV.IsZero() {
			return SVal{T: e.PV, Go: types.NewInterfaceType(nil, nil)}
		}
	case "alloc":
		return SVal{T: e.Heap.Comp(allocComp, SInt)}
	}
	if c, ok := e.W.C.Consts[name]; ok {
		n := *e
		n.Vars = nil
		return n.eval(c.Val.E)
	}
	if obj := e.W.lookupPkgObject("", name, e.Scope); obj != nil {
		return e.object(obj)
	}
	sfail("unknown identifier %q", name)
	return SVal{}
}

func (e *SpecEnv) object(obj types.Object) SVal {
	switch o := obj.(type) {
	case *types.Const:
		return constVal(e, o.Val(), o.Type())
	case *types.Func:
		fn := e.W.ssaFuncFor(o)
		if fn == nil {
			sfail("no SSA function for %s", o.FullName())
		}
		id := e.W.FnID(fn)
		e.Side.UseFnID(id)
		return SVal{T: IntLit(int64(id)), Go: o.Type()}
	case *types.Var:
		if o.Pkg() != nil && o.Pkg().Path() == "io" && o.Name() == "EOF" {
			return SVal{T: Term{"io.EOF!", SIface}, Go: o.Type()}
		}
		// package-level variable: pointer to its cell
		ref := Term{"glob!" + sanitize(shortPkg(o.Pkg().Path())+"."+o.Name()), SInt}
		t := o.Type()
		if _, ok := t.Underlying().(*types.Struct); ok {
			return SVal{T: ref, Go: t, Ref: true}
		}
		if _, ok := t.Underlying().(*types.Array); ok {
			// arrays live in element memory at the global's address
			return SVal{T: ref, Go: types.NewPointer(t)}
		}
		so := e.W.Sorts.SortOf(t)
		return SVal{T: Sel(e.Heap.Comp(cellComp(so), ArraySort(SInt, so)), ref), Go: t}
	}
	sfail("unsupported object %s", obj)
	return SVal{}
}

func constVal(e *SpecEnv, v constant.Value, t types.Type) SVal {
	switch v.Kind() {
	case constant.Bool:
		return SVal{T: BoolLit(constant.BoolVal(v)), Go: t}
	case constant.Int:
		return SVal{T: Term{smtInt(v.ExactString()), SInt}, Go: t}
	case constant.String:
		return SVal{T: e.Side.UseStrLit(constant.StringVal(v)), Go: t}
	}
	sfail("unsupported constant kind %v", v.Kind())
	return SVal{}
}

func smtInt(s string) string {
	if strings.HasPrefix(s, "-") {
		return "(- " + s[1:] + ")"
	}
	return s
}

func (e *SpecEnv) binary(x EBinary) SVal {
	boolT := types.Typ[types.Bool]
	switch x.Op {
	case "&&":
		return SVal{T: And(e.boolOf(x.X), e.boolOf(x.Y)), Go: boolT}
	case "||":
		return SVal{T: Or(e.boolOf(x.X), e.boolOf(x.Y)), Go: boolT}
	case "==>":
		return SVal{T: Implies(e.boolOf(x.X), e.boolOf(x.Y)), Go: boolT}
	case "<==>":
		return SVal{T: Iff(e.boolOf(x.X), e.boolOf(x.Y)), Go: boolT}
	case "==", "!=":
		a := e.value(e.eval(x.X))
		b := e.value(e.eval(x.Y))
		var t Term
		// string compared with literal: expand byte-wise
		if ls, ok := x.Y.(EStr); ok && a.T.Sort == SInt {
			t = strEqLit(a.T, ls.Val)
		} else if ls, ok := x.X.(EStr); ok && b.T.Sort == SInt {
			t = strEqLit(b.T, ls.Val)
		} else {
			if _, isNil := x.Y.(ENil); isNil && a.T.Sort != SInt {
				b.T = e.W.Sorts.Zero(a.T.Sort)
				if a.T.Sort == SIface {
					t = Eq(ITag(a.T), IntLit(0))
				} else if a.T.Sort == SSlice {
					t = Eq(SArr(a.T), IntLit(0))
				}
			}
			if t.IsZero() {
				if a.T.Sort != b.T.Sort {
					sfail("== on different sorts %s / %s", a.T.Sort, b.T.Sort)
				}
				t = Eq(a.T, b.T)
			}
		}
		if x.Op == "!=" {
			t = Not(t)
		}
		return SVal{T: t, Go: boolT}
	case "<", "<=", ">", ">=":
		a, b := e.intOf(x.X), e.intOf(x.Y)
		return SVal{T: App(x.Op, SBool, a, b), Go: boolT}
	case "+", "-", "*":
		a, b := e.intOf(x.X), e.intOf(x.Y)
		return SVal{T: App(x.Op, SInt, a, b)}
	case "/":
		return SVal{T: App("div", SInt, e.intOf(x.X), e.intOf(x.Y))}
	case "%":
		return SVal{T: App("mod", SInt, e.intOf(x.X), e.intOf(x.Y))}
	}
	sfail("unsupported operator %s", x.Op)
	return SVal{}
}

// strEqLit: string value s equals the literal lit (length and bytes).
func strEqLit(s Term, lit string) Term {
	cs := []Term{Eq(StrLen(s), IntLit(int64(len(lit))))}
	for i := 0; i < len(lit); i++ {
		cs = append(cs, Eq(StrAt(s, IntLit(int64(i))), IntLit(int64(lit[i]))))
	}
	return And(cs...)
}

func StrLen(s Term) Term   { return App("slen!", SInt, s) }
func StrAt(s, i Term) Term { return App("sat!", SInt, s, i) }

func (e *SpecEnv) quant(x EQuant) SVal {
	n := *e
	n.Vars = map[string]SVal{}
	for k, v := range e.Vars {
		n.Vars[k] = v
	}
	var vars []Term
	for _, qv := range x.Vars {
		so, gt, err := e.W.specSort(qv.Type, e.Scope)
		if err != nil {
			sfail("bound variable %s: %v", qv.Name, err)
		}
		t := Term{"q!" + qv.Name, so}
		vars = append(vars, t)
		n.Vars[qv.Name] = SVal{T: t, Go: gt}
	}
	body := n.boolOf(x.Body)
	var pats [][]Term
	for _, tr := range x.Triggers {
		var p []Term
		for _, te := range tr {
			p = append(p, n.value(n.eval(te)).T)
		}
		pats = append(pats, p)
	}
	if x.Forall {
		return SVal{T: Forall(vars, body, pats...), Go: types.Typ[types.Bool]}
	}
	return SVal{T: Exists(vars, body, pats...), Go: types.Typ[types.Bool]}
}

func (e *SpecEnv) sel(x ESel) SVal {
	// qualified identifier pkg.Name
	if id, ok := x.X.(EIdent); ok {
		if _, shadow := e.Vars[id.Name]; !shadow {
			if p := e.W.lookupPackage(id.Name, e.Scope); p != nil && e.W.lookupPkgObject("", id.Name, e.Scope) == nil {
				if obj := p.Scope().Lookup(x.Name); obj != nil {
					return e.object(obj)
				}
				sfail("%s.%s not found", id.Name, x.Name)
			}
		}
	}
	v := e.eval(x.X)
	return e.fieldOf(v, x.Name)
}

func (e *SpecEnv) fieldOf(v SVal, name string) SVal {
	if v.Go == nil {
		sfail("field %s of untyped value", name)
	}
	t := v.Go
	if p, ok := t.Underlying().(*types.Pointer); ok && !v.Ref {
		t = p.Elem()
		v = SVal{T: v.T, Go: t, Ref: true}
	}
	// slice pseudo-fields
	if _, ok := t.Underlying().(*types.Slice); ok {
		switch name {
		case "$arr":
			return SVal{T: SArr(v.T)}
		case "$off":
			return SVal{T: SOff(v.T)}
		}
	}
	st, ok := t.Underlying().(*types.Struct)
	if !ok {
		sfail("field %s of non-struct type %s", name, typeName(t))
	}
	so := e.W.Sorts.SortOf(t)
	info := e.W.Sorts.Struct(so)
	idx := -1
	for i, f := range info.Fields {
		if f.Name == name {
			idx = i
		}
	}
	if idx < 0 {
		// promoted field through embedding
		for i := 0; i < st.NumFields(); i++ {
			if st.Field(i).Embedded() {
				if inner := tryField(e, e.fieldOf(v, st.Field(i).Name()), name); inner != nil {
					return *inner
				}
			}
		}
		sfail("type %s has no field %s", typeName(t), name)
	}
	f := info.Fields[idx]
	if v.Ref {
		if f.Nested {
			return SVal{T: subRef(so, f.Name, v.T), Go: f.Type, Ref: true}
		}
		return SVal{T: Sel(e.Heap.Comp(fieldComp(so, f.Name), ArraySort(SInt, f.Sort)), v.T), Go: f.Type}
	}
	return SVal{T: e.W.Sorts.FieldOf(v.T, idx), Go: f.Type}
}

func tryField(e *SpecEnv, v SVal, name string) (res *SVal) {
	defer func() {
		if r := recover(); r != nil {
			if _, ok := r.(specErr); ok {
				res = nil
				return
			}
			panic(r)
		}
	}()
	r := e.fieldOf(v, name)
	return &r
}

func (e *SpecEnv) index(x EIndex) SVal {
	v := e.value(e.eval(x.X))
	if _, val, ok := v.T.Sort.IsArray(); ok && v.Go == nil {
		i := e.value(e.eval(x.I))
		return SVal{T: App("select", val, v.T, i.T)}
	}
	if v.Go == nil {
		sfail("index of untyped value")
	}
	switch u := v.Go.Underlying().(type) {
	case *types.Slice:
		i := e.intOf(x.I)
		es := e.W.Sorts.SortOf(u.Elem())
		m := e.Heap.Comp(memCompT(u.Elem()), memSort(es))
		return SVal{T: e.W.Sorts.Elt(Sel(m, SArr(v.T)), SOff(v.T), i), Go: u.Elem()}
	case *types.Basic:
		if u.Info()&types.IsString != 0 {
			return SVal{T: StrAt(v.T, e.intOf(x.I)), Go: types.Typ[types.Uint8]}
		}
	case *types.Pointer:
		if a, ok := u.Elem().Underlying().(*types.Array); ok {
			es := e.W.Sorts.SortOf(a.Elem())
			m := e.Heap.Comp(memCompT(a.Elem()), memSort(es))
			return SVal{T: e.W.Sorts.Elt(Sel(m, v.T), IntLit(0), e.intOf(x.I)), Go: a.Elem()}
		}
	case *types.Array:
		_, val, _ := v.T.Sort.IsArray()
		return SVal{T: App("select", val, v.T, e.intOf(x.I)), Go: u.Elem()}
	case *types.Map:
		k := e.value(e.eval(x.I))
		ks, vs := e.W.Sorts.SortOf(u.Key()), e.W.Sorts.SortOf(u.Elem())
		mv := e.Heap.Comp(mapValComp(ks, vs), ArraySort(SInt, ArraySort(ks, vs)))
		md := e.Heap.Comp(mapDomComp(ks, vs), ArraySort(SInt, ArraySort(ks, SBool)))
		val := Ite(And(Ne(v.T, IntLit(0)), Sel(Sel(md, v.T), k.T)), Sel(Sel(mv, v.T), k.T), e.W.Sorts.Zero(vs))
		return SVal{T: val, Go: u.Elem()}
	}
	sfail("cannot index type %s", typeName(v.Go))
	return SVal{}
}

func (e *SpecEnv) slice(x ESlice) SVal {
	v := e.value(e.eval(x.X))
	if v.Go == nil {
		sfail("slice of untyped value")
	}
	if _, ok := v.Go.Underlying().(*types.Slice); !ok {
		sfail("spec slicing only on slices")
	}
	lo := IntLit(0)
	if x.Lo != nil {
		lo = e.intOf(x.Lo)
	}
	hi := SLen(v.T)
	if x.Hi != nil {
		hi = e.intOf(x.Hi)
	}
	return SVal{T: MkSlice(SArr(v.T), Add(SOff(v.T), lo), Sub(hi, lo), Sub(SCap(v.T), lo)), Go: v.Go}
}

func (e *SpecEnv) mapComps(t *types.Map) (md, mv Term) {
	ks, vs := e.W.Sorts.SortOf(t.Key()), e.W.Sorts.SortOf(t.Elem())
	mv = e.Heap.Comp(mapValComp(ks, vs), ArraySort(SInt, ArraySort(ks, vs)))
	md = e.Heap.Comp(mapDomComp(ks, vs), ArraySort(SInt, ArraySort(ks, SBool)))
	return
}

func (e *SpecEnv) call(x ECall) SVal {
	boolT := types.Typ[types.Bool]
	switch x.Fun {
	case "len":
		v := e.value(e.eval(x.Args[0]))
		if v.Go == nil {
			sfail("len of untyped value")
		}
		switch u := v.Go.Underlying().(type) {
		case *types.Slice:
			return SVal{T: SLen(v.T)}
		case *types.Basic:
			return SVal{T: StrLen(v.T)}
		case *types.Map:
			mks, mvs := e.W.Sorts.SortOf(u.Key()), e.W.Sorts.SortOf(u.Elem())
			return SVal{T: Ite(Eq(v.T, IntLit(0)), IntLit(0), Sel(e.Heap.Comp(mapSizeComp(mks, mvs), ArraySort(SInt, SInt)), v.T))}
		case *types.Array:
			return SVal{T: IntLit(u.Len())}
		case *types.Pointer:
			if a, ok := u.Elem().Underlying().(*types.Array); ok {
				return SVal{T: IntLit(a.Len())}
			}
		}
		sfail("len of %s", typeName(v.Go))
	case "cap":
		v := e.value(e.eval(x.Args[0]))
		return SVal{T: SCap(v.T)}
	case "dom": // dom(m, k): key k present in Go map m
		v := e.value(e.eval(x.Args[0]))
		mt, ok := v.Go.Underlying().(*types.Map)
		if !ok {
			sfail("dom() of non-map")
		}
		k := e.value(e.eval(x.Args[1]))
		if ks := e.W.Sorts.SortOf(mt.Key()); k.T.Sort != ks {
			sfail("dom(): key of sort %s used with a map whose keys have sort %s", k.T.Sort, ks)
		}
		md, _ := e.mapComps(mt)
		return SVal{T: And(Ne(v.T, IntLit(0)), Sel(Sel(md, v.T), k.T)), Go: boolT}
	case "tag": // dynamic type tag of an interface value
		v := e.value(e.eval(x.Args[0]))
		return SVal{T: ITag(v.T)}
	case "ival":
		v := e.value(e.eval(x.Args[0]))
		return SVal{T: IVal(v.T)}
	case "typetag": // typetag(T): tag of Go type T
		t := e.typeArg(x.Args[0])
		return SVal{T: IntLit(int64(e.W.Sorts.Tag(t)))}
	case "typeis": // typeis(x, T)
		v := e.value(e.eval(x.Args[0]))
		t := e.typeArg(x.Args[1])
		return SVal{T: Eq(ITag(v.T), IntLit(int64(e.W.Sorts.Tag(t)))), Go: boolT}
	case "unbox": // unbox(x, T): payload of interface x as T
		v := e.value(e.eval(x.Args[0]))
		t := e.typeArg(x.Args[1])
		so := e.W.Sorts.SortOf(t)
		if _, isPtr := t.Underlying().(*types.Pointer); isPtr {
			return SVal{T: IVal(v.T), Go: t}
		}
		return SVal{T: e.W.Sorts.Unbox(IVal(v.T), so), Go: t}
	case "fresh":
		v := e.value(e.eval(x.Args[0]))
		if e.Old == nil {
			sfail("fresh() outside postcondition")
		}
		r := v.T
		if v.T.Sort == SSlice {
			r = SArr(v.T)
		}
		return SVal{T: And(Gt(r, e.Old.Comp(allocComp, SInt)), Le(r, e.Heap.Comp(allocComp, SInt))), Go: boolT}
	case "allocated":
		v := e.value(e.eval(x.Args[0]))
		r := v.T
		if v.T.Sort == SSlice {
			r = SArr(v.T)
			return SVal{T: And(Ge(r, IntLit(0)), Le(r, e.Heap.Comp(allocComp, SInt))), Go: boolT}
		}
		// an object, or a sub-object (embedded struct: negative address) of an allocated object
		root := App("root!", SInt, r)
		return SVal{T: And(Ne(r, IntLit(0)), Ne(root, IntLit(0)), Ge(root, IntLit(0)), Le(root, e.Heap.Comp(allocComp, SInt))), Go: boolT}
	case "int", "uint", "byte", "mathint", "uint8", "int64", "uint64":
		return SVal{T: e.intOf(x.Args[0])}
	case "ref": // address of an lvalue struct / pointer value as integer
		v := e.eval(x.Args[0])
		return SVal{T: v.T}
	case "min", "max":
		a, b := e.intOf(x.Args[0]), e.intOf(x.Args[1])
		if x.Fun == "min" {
			return SVal{T: Ite(Le(a, b), a, b)}
		}
		return SVal{T: Ite(Ge(a, b), a, b)}
	case "store": // functional array update for spec arrays
		a := e.value(e.eval(x.Args[0]))
		i := e.value(e.eval(x.Args[1]))
		v := e.value(e.eval(x.Args[2]))
		return SVal{T: Store(a.T, i.T, v.T)}
	case "box": // box(x): the interface value holding x (dynamic type = x's static Go type)
		v := e.value(e.eval(x.Args[0]))
		if v.Go == nil {
			sfail("box(): argument has no Go type")
		}
		if _, isI := v.Go.Underlying().(*types.Interface); isI {
			return v
		}
		return SVal{T: MkIface(IntLit(int64(e.W.Sorts.Tag(v.Go))), e.W.Sorts.Box(v.T)), Go: types.NewInterfaceType(nil, nil)}
	case "app", "app1", "apppanics", "apppv": // callback application model (see callbackCall)
		fv := e.value(e.eval(x.Args[0]))
		sig, ok := fv.Go.Underlying().(*types.Signature)
		if fv.Go == nil || !ok {
			sfail("%s(): first argument must be a function-typed parameter", x.Fun)
		}
		args := []Term{fv.T}
		sorts := []string{"Int"}
		for _, a := range x.Args[1:] {
			v := e.value(e.eval(a))
			args = append(args, v.T)
			sorts = append(sorts, string(v.T.Sort))
		}
		if x.Fun == "apppanics" {
			return SVal{T: App(e.W.AppFun("apppanics", sorts, SBool, 0), SBool, args...), Go: boolT}
		}
		if x.Fun == "apppv" {
			return SVal{T: App(e.W.AppFun("apppv", sorts, SIface, 0), SIface, args...), Go: types.NewInterfaceType(nil, nil)}
		}
		idx := 0
		if x.Fun == "app1" {
			idx = 1
		}
		if idx >= sig.Results().Len() {
			sfail("%s(): callback has no result %d", x.Fun, idx)
		}
		rt := sig.Results().At(idx).Type()
		so := e.W.Sorts.SortOf(rt)
		return SVal{T: App(e.W.AppFun("app", sorts, so, idx), so, args...), Go: rt}
	case "beq": // beq(b, "lit"): byte slice b spells the literal
		v := e.value(e.eval(x.Args[0]))
		lit, ok := x.Args[1].(EStr)
		if !ok {
			sfail("beq(b, \"literal\")")
		}
		st, ok := v.Go.Underlying().(*types.Slice)
		if v.Go == nil || !ok {
			sfail("beq() of non-slice")
		}
		es := e.W.Sorts.SortOf(st.Elem())
		arr := Sel(e.Heap.Comp(memCompT(st.Elem()), memSort(es)), SArr(v.T))
		cs := []Term{Eq(SLen(v.T), IntLit(int64(len(lit.Val))))}
		for i := 0; i < len(lit.Val); i++ {
			cs = append(cs, Eq(e.W.Sorts.Elt(arr, SOff(v.T), IntLit(int64(i))), IntLit(int64(lit.Val[i]))))
		}
		return SVal{T: And(cs...), Go: boolT}
	case "boundis": // boundis(f, T, "m"): function value f is a method value x.m with x of type T
		v := e.value(e.eval(x.Args[0]))
		t := e.typeArg(x.Args[1])
		lit, ok := x.Args[2].(EStr)
		if !ok {
			sfail("boundis(f, T, \"method\")")
		}
		bw := e.W.boundWrapper(t, lit.Val)
		if bw == nil {
			sfail("boundis: no method value %s.%s occurs in the module", typeName(t), lit.Val)
		}
		id := e.W.FnID(bw)
		e.Side.UseFnID(id)
		return SVal{T: Eq(App("fncode!", SInt, v.T), IntLit(int64(id))), Go: boolT}
	case "mem": // mem(s): the backing array of slice s as a spec array
		v := e.value(e.eval(x.Args[0]))
		st, ok := v.Go.Underlying().(*types.Slice)
		if !ok {
			sfail("mem() of non-slice")
		}
		es := e.W.Sorts.SortOf(st.Elem())
		return SVal{T: Sel(e.Heap.Comp(memCompT(st.Elem()), memSort(es)), SArr(v.T))}
	}
	// spec function
	name := x.Fun
	if si := e.W.specs[name]; si != nil {
		if len(x.Args) != len(si.params) {
			sfail("spec func %s: %d arguments, want %d", name, len(x.Args), len(si.params))
		}
		var args []Term
		for _, c := range si.reads {
			args = append(args, e.Heap.Comp(c.name, c.sort))
		}
		for i, a := range x.Args {
			v := e.value(e.eval(a))
			if v.T.Sort != si.params[i].T.Sort {
				sfail("spec func %s: argument %d has sort %s, want %s", name, i, v.T.Sort, si.params[i].T.Sort)
			}
			args = append(args, v.T)
		}
		e.Side.UseSpec(name)
		return SVal{T: App("sf!"+name, si.result, args...), Go: si.resultGo}
	}
	if _, ok := e.W.C.Specs[name]; ok {
		sfail("spec func %s used before its definition is processed", name)
	}
	sfail("unknown function %s in spec", name)
	return SVal{}
}

func (e *SpecEnv) typeArg(x Expr) types.Type {
	text := exprText(x)
	t, err := e.W.ResolveType(text, e.Scope)
	if err != nil {
		sfail("type argument %q: %v", text, err)
	}
	return t
}

func exprText(x Expr) string {
	switch x := x.(type) {
	case EIdent:
		return x.Name
	case ESel:
		return exprText(x.X) + "." + x.Name
	case EUnary:
		if x.Op == "*" {
			return "*" + exprText(x.X)
		}
	}
	return "?"
}

// ---- spec function processing ----

type compRef struct {
	name string
	sort Sort
}

type specInfo struct {
	sf          *SpecFunc
	params      []SVal
	result      Sort
	resultGo    types.Type
	reads       []compRef
	deps        map[string]bool
	text        []string // SMT definition lines (declare/define + axioms)
	bodyText    string   // body of a macro-defined function
	formalNames []string
	declOnly    string // declare-fun line for recursive functions
}

// recordingHeap hands out parameter symbols for heap components.
type recordingHeap struct {
	seen map[string]Sort
}

func (r *recordingHeap) Comp(name string, sort Sort) Term {
	r.seen[name] = sort
	return Term{"hp!" + name, sort}
}

type depSink struct {
	w    *World
	deps map[string]bool
	lits map[string]bool
	fns  map[int]bool
}

func (d *depSink) UseSpec(name string) { d.deps[name] = true }
func (d *depSink) UseStrLit(s string) Term {
	d.lits[s] = true
	return d.w.strLitTerm(s)
}
func (d *depSink) UseFnID(id int) { d.fns[id] = true }

func (w *World) strLitTerm(s string) Term {
	if n, ok := w.strLits[s]; ok {
		return Term{n, SInt}
	}
	n := fmt.Sprintf("strlit!%d", len(w.strLits))
	w.strLits[s] = n
	return Term{n, SInt}
}

// strLitDecl returns the SMT lines defining a string literal constant.
func (w *World) strLitDecl(s string) []string {
	n := w.strLits[s]
	lines := []string{fmt.Sprintf("(declare-const %s Int)", n),
		fmt.Sprintf("(assert (= (slen! %s) %d))", n, len(s))}
	if len(s) <= 64 {
		for i := 0; i < len(s); i++ {
			lines = append(lines, fmt.Sprintf("(assert (= (sat! %s %d) %d))", n, i, s[i]))
		}
	}
	if len(s) <= 32 {
		// strings are values: any string spelling this literal IS this literal
		conds := []string{fmt.Sprintf("(= (slen! s) %d)", len(s))}
		for i := 0; i < len(s); i++ {
			conds = append(conds, fmt.Sprintf("(= (sat! s %d) %d)", i, s[i]))
		}
		lines = append(lines, fmt.Sprintf("(assert (forall ((s Int)) (! (=> (and %s) (= s %s)) :pattern ((slen! s)))))", strings.Join(conds, " "), n))
	}
	return lines
}

// ProcessSpecs translates all spec functions (global fixpoint on heap reads).
func (w *World) ProcessSpecs() error {
	// declare signatures first
	for _, name := range w.C.SpecOrd {
		sf := w.C.Specs[name]
		si := &specInfo{sf: sf, deps: map[string]bool{}}
		for _, p := range sf.Params {
			so, gt, err := w.specSort(p.Type, sf.ScopePkg)
			if err != nil {
				return fmt.Errorf("%s:%d: spec func %s param %s: %v", sf.File, sf.Line, name, p.Name, err)
			}
			si.params = append(si.params, SVal{T: Term{"p!" + p.Name, so}, Go: gt})
		}
		so, gt, err := w.specSort(sf.Result, sf.ScopePkg)
		if err != nil {
			return fmt.Errorf("%s:%d: spec func %s result: %v", sf.File, sf.Line, name, err)
		}
		si.result, si.resultGo = so, gt
		w.specs[name] = si
	}
	// fixpoint on reads
	for iter := 0; ; iter++ {
		changed := false
		for _, name := range w.C.SpecOrd {
			si := w.specs[name]
			if si.sf.Body == nil {
				continue
			}
			rh := &recordingHeap{seen: map[string]Sort{}}
			ds := &depSink{w: w, deps: map[string]bool{}, lits: map[string]bool{}, fns: map[int]bool{}}
			env := &SpecEnv{W: w, Vars: map[string]SVal{}, Heap: rh, Scope: si.sf.ScopePkg, Side: ds}
			for i, p := range si.sf.Params {
				env.Vars[p.Name] = si.params[i]
			}
			if _, err := env.Eval(si.sf.Body.E); err != nil {
				return fmt.Errorf("%s:%d: spec func %s: %v", si.sf.File, si.sf.Line, name, err)
			}
			have := map[string]bool{}
			for _, c := range si.reads {
				have[c.name] = true
			}
			var names []string
			for n := range rh.seen {
				names = append(names, n)
			}
			sort.Strings(names)
			for _, n := range names {
				if !have[n] {
					si.reads = append(si.reads, compRef{n, rh.seen[n]})
					changed = true
				}
			}
			sort.Slice(si.reads, func(i, j int) bool { return si.reads[i].name < si.reads[j].name })
		}
		if !changed {
			break
		}
		if iter > 50 {
			return fmt.Errorf("spec read-set fixpoint does not converge")
		}
	}
	// final translation
	for _, name := range w.C.SpecOrd {
		si := w.specs[name]
		sig := ""
		var formals []string
		var callArgs []string
		for _, c := range si.reads {
			formals = append(formals, fmt.Sprintf("(hp!%s %s)", c.name, c.sort))
			sig += string(c.sort) + " "
			callArgs = append(callArgs, "hp!"+c.name)
		}
		for _, p := range si.params {
			formals = append(formals, fmt.Sprintf("(%s %s)", p.T.S, p.T.Sort))
			sig += string(p.T.Sort) + " "
			callArgs = append(callArgs, p.T.S)
		}
		if si.sf.Body == nil {
			si.declOnly = fmt.Sprintf("(declare-fun sf!%s (%s) %s)", name, sig, si.result)
			continue
		}
		rh := &recordingHeap{seen: map[string]Sort{}}
		ds := &depSink{w: w, deps: map[string]bool{}, lits: map[string]bool{}, fns: map[int]bool{}}
		env := &SpecEnv{W: w, Vars: map[string]SVal{}, Heap: rh, Scope: si.sf.ScopePkg, Side: ds}
		for i, p := range si.sf.Params {
			env.Vars[p.Name] = si.params[i]
		}
		body, err := env.Eval(si.sf.Body.E)
		if err != nil {
			return fmt.Errorf("%s:%d: spec func %s: %v", si.sf.File, si.sf.Line, name, err)
		}
		body = env.value(body)
		if body.T.Sort != si.result {
			return fmt.Errorf("%s:%d: spec func %s: body has sort %s, declared %s", si.sf.File, si.sf.Line, name, body.T.Sort, si.result)
		}
		si.deps = ds.deps
		for l := range ds.lits {
			si.deps["strlit:"+l] = true
		}
		// predicates with quantifiers are kept opaque (declare + definitional axiom)
		// so that congruence closure can identify instances with equal arguments
		opaque := si.sf.Recursive || si.sf.Opaque || strings.Contains(body.T.S, "(forall ") || strings.Contains(body.T.S, "(exists ")
		if opaque {
			si.declOnly = fmt.Sprintf("(declare-fun sf!%s (%s) %s)", name, sig, si.result)
			call := "sf!" + name
			if len(callArgs) > 0 {
				call = "(sf!" + name + " " + strings.Join(callArgs, " ") + ")"
			}
			if len(formals) == 0 {
				si.text = []string{fmt.Sprintf("(assert (= %s %s))", call, body.T.S)}
			} else {
				si.text = []string{fmt.Sprintf("(assert (forall (%s) (! (= %s %s) :pattern (%s))))", strings.Join(formals, " "), call, body.T.S, call)}
			}
		} else {
			si.text = []string{fmt.Sprintf("(define-fun sf!%s (%s) %s %s)", name, strings.Join(formals, " "), si.result, body.T.S)}
			si.bodyText = body.T.S
			si.formalNames = callArgs
		}
	}
	// non-recursive functions must not form cycles
	for _, name := range w.C.SpecOrd {
		if w.specs[name].sf.Recursive {
			continue
		}
		if w.specCycle(name, name, map[string]bool{}) {
			return fmt.Errorf("spec func %s is recursive but has no decreases clause", name)
		}
	}
	return nil
}

func (w *World) specCycle(start, cur string, seen map[string]bool) bool {
	for d := range w.specs[cur].deps {
		si := w.specs[d]
		if si == nil || si.sf.Recursive {
			continue
		}
		if d == start {
			return true
		}
		if !seen[d] {
			seen[d] = true
			if w.specCycle(start, d, seen) {
				return true
			}
		}
	}
	return false
}

// SpecPrelude returns the definitions of the given spec functions and
// everything they depend on, in a valid order.
func (w *World) SpecPrelude(used map[string]bool) []string {
	closure := map[string]bool{}
	lits := map[string]bool{}
	var visit func(n string)
	visit = func(n string) {
		if strings.HasPrefix(n, "strlit:") {
			lits[strings.TrimPrefix(n, "strlit:")] = true
			return
		}
		if closure[n] || w.specs[n] == nil {
			return
		}
		closure[n] = true
		for d := range w.specs[n].deps {
			visit(d)
		}
	}
	for n := range used {
		visit(n)
	}
	var out []string
	var ls []string
	for l := range lits {
		ls = append(ls, l)
	}
	sort.Strings(ls)
	for _, l := range ls {
		out = append(out, w.strLitDecl(l)...)
	}
	// declare-funs first
	for _, n := range w.C.SpecOrd {
		if closure[n] && w.specs[n].declOnly != "" {
			out = append(out, w.specs[n].declOnly)
		}
	}
	// define-funs in dependency order
	emitted := map[string]bool{}
	var emit func(n string)
	emit = func(n string) {
		si := w.specs[n]
		if emitted[n] || si == nil {
			return
		}
		emitted[n] = true
		if si.declOnly != "" {
			return
		}
		var ds []string
		for d := range si.deps {
			ds = append(ds, d)
		}
		sort.Strings(ds)
		for _, d := range ds {
			emit(d)
		}
		out = append(out, si.text...)
	}
	for _, n := range w.C.SpecOrd {
		if closure[n] {
			emit(n)
		}
	}
	// axioms of recursive functions last
	for _, n := range w.C.SpecOrd {
		if closure[n] && w.specs[n].declOnly != "" {
			out = append(out, w.specs[n].text...)
		}
	}
	return out
}
