package vc

import (
	"fmt"
	"os"
	"path/filepath"
	"sort"
	"strconv"
	"strings"
)

// Clause is one parsed contract expression with its provenance.
type Clause struct {
	E    Expr
	Src  string
	File string
	Line int
}

type LoopSpec struct {
	Invariants []Clause
	Decreases  *Clause
	Lemmas     []Clause // lemma instances assumed at the loop head (with the current values)
}

type Param struct {
	Name string
	Type string
}

// FuncContract is the contract of one Go function (or function type / interface
// method, in which case Params name the formal parameters).
type FuncContract struct {
	Kind       string // "func", "functype", "interface", "extern"
	Target     string // as written: "(Bytes).TrimSpaces", "stateInString", "bytes.Equal"
	ScopePkg   string // import path whose scope resolves names
	Params     []Param
	Results    []Param
	Requires   []Clause
	Ensures    []Clause
	Defines    []Clause // definitional postconditions: assumed at call sites, not checked against the body (listed as assumptions)
	Keeps      []string // with `modifies *` on a trusted contract: element memory of these Go types is left unchanged for arrays that existed before the call
	Assumes    []Clause // assumed at function entry, NOT checked at call sites (shape of the input the caller cannot express); listed as assumptions
	Modifies   []Clause // expressions p.f / p.f[*]; a single "*" identifier = everything
	ModAll     bool
	Decreases  *Clause
	Loops      map[int]*LoopSpec
	Trusted    string // non-empty: assumed, never checked (reason)
	Pure       bool   // no heap effect, no panic, result is a function of arguments
	NoPanic    bool   // function never panics (explicit panics are obligations)
	MayPanic   bool   // runtime panics are allowed behaviour (contract must describe them)
	Inline     bool
	Uses       []string
	UseCalls   []Clause // lemma instances (name(args)) assumed at function entry
	Refines    string   // functype contract this function implements, e.g. "stepFunc"
	Implements string   // interface method contract this method implements, e.g. "Err.Code"
	Props      []string
	File       string
	Line       int
}

type SpecFunc struct {
	Name      string
	ScopePkg  string
	Params    []Param
	Result    string
	Body      *Clause // nil: uninterpreted
	Decreases *Clause // non-nil: recursive (axiomatised)
	Recursive bool
	Opaque    bool // declared + definitional axiom even though not recursive (usable in triggers)
	File      string
	Line      int
}

type Axiom struct {
	Name     string
	ScopePkg string
	E        Clause
}

type Lemma struct {
	Name      string
	ScopePkg  string
	Params    []Param
	Requires  []Clause
	Ensures   []Clause
	Induction string  // variable name, "" = direct proof
	From      *Clause // base value
	Uses      []string
	Triggers  []Clause // trigger terms for the lemma-as-axiom
	Props     []string
	File      string
	Line      int
}

type GhostField struct {
	ScopePkg string
	Struct   string
	Name     string
	Type     string
}

type Guard struct {
	ScopePkg string
	Struct   string
	Field    string
	Read     *Clause // over "self" (pointer to the struct)
	Write    *Clause
}

type SpecConst struct {
	Name string
	Val  Clause
}

// Contracts is everything read from the contract files and the spec library.
type Contracts struct {
	Funcs   []*FuncContract
	Specs   map[string]*SpecFunc
	SpecOrd []string
	Axioms  []*Axiom
	Lemmas  map[string]*Lemma
	LemOrd  []string
	Ghosts  []*GhostField
	Guards  []*Guard
	Consts  map[string]*SpecConst
}

func NewContracts() *Contracts {
	return &Contracts{Specs: map[string]*SpecFunc{}, Lemmas: map[string]*Lemma{}, Consts: map[string]*SpecConst{}}
}

type srcLine struct {
	text string
	file string
	line int
}

var blockKw = map[string]bool{"func": true, "spec": true, "predicate": true, "axiom": true, "lemma": true,
	"ghostfield": true, "functype": true, "interface": true, "guard": true, "const": true, "extern": true, "package": true}
var clauseKw = map[string]bool{"requires": true, "ensures": true, "defines": true, "assumes": true, "keeps": true, "modifies": true, "decreases": true, "loop": true,
	"uses": true, "trusted": true, "pure": true, "inline": true, "nopanic": true, "maypanic": true, "induction": true,
	"refines": true, "implements": true, "props": true, "trigger": true, "read": true, "write": true}

func firstWord(s string) (string, string) {
	s = strings.TrimSpace(s)
	i := strings.IndexAny(s, " \t")
	if i < 0 {
		return s, ""
	}
	return s[:i], strings.TrimSpace(s[i+1:])
}

// LoadGVS reads a spec library file.
func (c *Contracts) LoadGVS(path string) error {
	data, err := os.ReadFile(path)
	if err != nil {
		return err
	}
	var lines []srcLine
	for i, l := range strings.Split(string(data), "\n") {
		if k := strings.Index(l, "//"); k >= 0 {
			l = l[:k]
		}
		lines = append(lines, srcLine{l, path, i + 1})
	}
	return c.parseLines(lines, "")
}

// LoadSpecDir reads every *.gvs file of a directory in name order.
func (c *Contracts) LoadSpecDir(dir string) error {
	ents, err := filepath.Glob(filepath.Join(dir, "*.gvs"))
	if err != nil {
		return err
	}
	sort.Strings(ents)
	for _, e := range ents {
		if err := c.LoadGVS(e); err != nil {
			return err
		}
	}
	return nil
}

// LoadCommentLines parses the //@ lines of a contract file of package pkgPath.
func (c *Contracts) LoadCommentLines(lines []srcLine, pkgPath string) error {
	return c.parseLines(lines, pkgPath)
}

func (c *Contracts) parseLines(lines []srcLine, scope string) error {
	// group into logical statements: a statement starts at a keyword line
	type stmt struct {
		kw   string
		rest string
		file string
		line int
	}
	var stmts []stmt
	for _, l := range lines {
		t := strings.TrimSpace(l.text)
		if t == "" {
			continue
		}
		w, rest := firstWord(t)
		if blockKw[w] || clauseKw[w] {
			stmts = append(stmts, stmt{w, rest, l.file, l.line})
		} else {
			if len(stmts) == 0 {
				return fmt.Errorf("%s:%d: continuation line without statement", l.file, l.line)
			}
			stmts[len(stmts)-1].rest += " " + t
		}
	}
	var curF *FuncContract
	var curL *Lemma
	var curS *SpecFunc
	var curG *Guard
	mk := func(s stmt, src string) (Clause, error) {
		e, err := ParseExpr(src)
		if err != nil {
			return Clause{}, fmt.Errorf("%s:%d: %v", s.file, s.line, err)
		}
		return Clause{E: e, Src: src, File: s.file, Line: s.line}, nil
	}
	for _, s := range stmts {
		switch s.kw {
		case "package":
			scope = strings.TrimSpace(s.rest)
			if scope != "" && !strings.Contains(scope, modulePrefix) && scope != "-" {
				if scope == "root" {
					scope = modulePrefix
				} else {
					scope = modulePrefix + "/" + scope
				}
			}
			if scope == "-" {
				scope = ""
			}
			curF, curL, curS, curG = nil, nil, nil, nil
		case "func", "functype", "interface", "extern":
			curL, curS, curG = nil, nil, nil
			fc := &FuncContract{Kind: s.kw, ScopePkg: scope, Loops: map[int]*LoopSpec{}, File: s.file, Line: s.line}
			target, params, results, err := parseSignature(s.rest)
			if err != nil {
				return fmt.Errorf("%s:%d: %v", s.file, s.line, err)
			}
			fc.Target, fc.Params, fc.Results = target, params, results
			c.Funcs = append(c.Funcs, fc)
			curF = fc
		case "spec", "predicate":
			curF, curL, curG = nil, nil, nil
			rest := s.rest
			if s.kw == "spec" {
				w, r := firstWord(rest)
				if w != "func" {
					return fmt.Errorf("%s:%d: expected 'spec func'", s.file, s.line)
				}
				rest = r
			}
			sf := &SpecFunc{ScopePkg: scope, File: s.file, Line: s.line}
			head := rest
			body := ""
			if i := indexTopLevelEq(rest); i >= 0 {
				head, body = strings.TrimSpace(rest[:i]), strings.TrimSpace(rest[i+1:])
			}
			if strings.HasSuffix(head, " opaque") {
				sf.Opaque = true
				head = strings.TrimSpace(strings.TrimSuffix(head, " opaque"))
			}
			// optional "decreases e" at end of head
			if i := strings.Index(head, " decreases "); i >= 0 {
				d, err := mk(s, strings.TrimSpace(head[i+len(" decreases "):]))
				if err != nil {
					return err
				}
				sf.Decreases = &d
				sf.Recursive = true
				head = strings.TrimSpace(head[:i])
			}
			name, params, results, err := parseSignature(head)
			if err != nil {
				return fmt.Errorf("%s:%d: %v", s.file, s.line, err)
			}
			sf.Name, sf.Params = name, params
			if s.kw == "predicate" {
				sf.Result = "bool"
			} else if len(results) == 1 {
				sf.Result = results[0].Type
			} else {
				return fmt.Errorf("%s:%d: spec func needs exactly one result type", s.file, s.line)
			}
			if body != "" {
				b, err := mk(s, body)
				if err != nil {
					return err
				}
				sf.Body = &b
			}
			if _, dup := c.Specs[sf.Name]; dup {
				return fmt.Errorf("%s:%d: duplicate spec func %s", s.file, s.line, sf.Name)
			}
			c.Specs[sf.Name] = sf
			c.SpecOrd = append(c.SpecOrd, sf.Name)
			curS = sf
		case "axiom":
			curF, curL, curS, curG = nil, nil, nil, nil
			i := strings.Index(s.rest, ":")
			if i < 0 {
				return fmt.Errorf("%s:%d: axiom needs 'name: expr'", s.file, s.line)
			}
			e, err := mk(s, s.rest[i+1:])
			if err != nil {
				return err
			}
			c.Axioms = append(c.Axioms, &Axiom{Name: strings.TrimSpace(s.rest[:i]), ScopePkg: scope, E: e})
		case "lemma":
			curF, curS, curG = nil, nil, nil
			name, params, _, err := parseSignature(s.rest)
			if err != nil {
				return fmt.Errorf("%s:%d: %v", s.file, s.line, err)
			}
			lm := &Lemma{Name: name, ScopePkg: scope, Params: params, File: s.file, Line: s.line}
			c.Lemmas[name] = lm
			c.LemOrd = append(c.LemOrd, name)
			curL = lm
		case "ghostfield":
			// ghostfield Struct.name type
			w, typ := firstWord(s.rest)
			i := strings.LastIndex(w, ".")
			if i < 0 {
				return fmt.Errorf("%s:%d: ghostfield Struct.name type", s.file, s.line)
			}
			c.Ghosts = append(c.Ghosts, &GhostField{ScopePkg: scope, Struct: w[:i], Name: w[i+1:], Type: typ})
		case "guard":
			curF, curL, curS = nil, nil, nil
			w, _ := firstWord(s.rest)
			i := strings.LastIndex(w, ".")
			if i < 0 {
				return fmt.Errorf("%s:%d: guard Struct.field", s.file, s.line)
			}
			curG = &Guard{ScopePkg: scope, Struct: w[:i], Field: w[i+1:]}
			c.Guards = append(c.Guards, curG)
		case "const":
			i := strings.Index(s.rest, "=")
			if i < 0 {
				return fmt.Errorf("%s:%d: const NAME = expr", s.file, s.line)
			}
			e, err := mk(s, s.rest[i+1:])
			if err != nil {
				return err
			}
			n := strings.TrimSpace(s.rest[:i])
			c.Consts[n] = &SpecConst{n, e}
		case "read", "write":
			if curG == nil {
				return fmt.Errorf("%s:%d: %s outside guard", s.file, s.line, s.kw)
			}
			e, err := mk(s, s.rest)
			if err != nil {
				return err
			}
			if s.kw == "read" {
				curG.Read = &e
			} else {
				curG.Write = &e
			}
		case "requires", "ensures":
			e, err := mk(s, s.rest)
			if err != nil {
				return err
			}
			switch {
			case curF != nil && s.kw == "requires":
				curF.Requires = append(curF.Requires, e)
			case curF != nil:
				curF.Ensures = append(curF.Ensures, e)
			case curL != nil && s.kw == "requires":
				curL.Requires = append(curL.Requires, e)
			case curL != nil:
				curL.Ensures = append(curL.Ensures, e)
			default:
				return fmt.Errorf("%s:%d: %s outside func/lemma", s.file, s.line, s.kw)
			}
		case "defines":
			if curF == nil {
				return fmt.Errorf("%s:%d: defines outside func", s.file, s.line)
			}
			e, err := mk(s, s.rest)
			if err != nil {
				return err
			}
			curF.Defines = append(curF.Defines, e)
		case "keeps":
			if curF == nil {
				return fmt.Errorf("%s:%d: keeps outside func", s.file, s.line)
			}
			for _, part := range splitTopLevelComma(s.rest) {
				curF.Keeps = append(curF.Keeps, strings.TrimSpace(part))
			}
		case "assumes":
			if curF == nil {
				return fmt.Errorf("%s:%d: assumes outside func", s.file, s.line)
			}
			e, err := mk(s, s.rest)
			if err != nil {
				return err
			}
			curF.Assumes = append(curF.Assumes, e)
		case "modifies":
			if curF == nil {
				return fmt.Errorf("%s:%d: modifies outside func", s.file, s.line)
			}
			for _, part := range splitTopLevelComma(s.rest) {
				part = strings.TrimSpace(part)
				if part == "*" {
					curF.ModAll = true
					continue
				}
				if part == "" || part == "nothing" {
					continue
				}
				part = strings.ReplaceAll(part, "[*]", ".$elems")
				e, err := mk(s, part)
				if err != nil {
					return err
				}
				curF.Modifies = append(curF.Modifies, e)
			}
		case "decreases":
			e, err := mk(s, s.rest)
			if err != nil {
				return err
			}
			switch {
			case curF != nil:
				curF.Decreases = &e
			case curS != nil:
				curS.Decreases = &e
				curS.Recursive = true
			default:
				return fmt.Errorf("%s:%d: decreases outside func", s.file, s.line)
			}
		case "loop":
			if curF == nil {
				return fmt.Errorf("%s:%d: loop outside func", s.file, s.line)
			}
			nstr, rest := firstWord(s.rest)
			n, err := strconv.Atoi(nstr)
			if err != nil {
				return fmt.Errorf("%s:%d: loop ordinal: %v", s.file, s.line, err)
			}
			kind, ex := firstWord(rest)
			e, err := mk(s, ex)
			if err != nil {
				return err
			}
			ls := curF.Loops[n]
			if ls == nil {
				ls = &LoopSpec{}
				curF.Loops[n] = ls
			}
			switch kind {
			case "invariant":
				ls.Invariants = append(ls.Invariants, e)
			case "lemma":
				ls.Lemmas = append(ls.Lemmas, e)
			case "decreases":
				ls.Decreases = &e
			default:
				return fmt.Errorf("%s:%d: loop %d: expected invariant/decreases", s.file, s.line, n)
			}
		case "uses":
			rest := strings.TrimPrefix(strings.TrimSpace(s.rest), "lemma ")
			if strings.Contains(rest, "(") {
				// call form: ground lemma instances
				if curF == nil {
					return fmt.Errorf("%s:%d: lemma instance outside func", s.file, s.line)
				}
				for _, part := range splitTopLevelComma(rest) {
					e, err := mk(s, strings.TrimSpace(part))
					if err != nil {
						return err
					}
					curF.UseCalls = append(curF.UseCalls, e)
				}
				continue
			}
			names := strings.Split(rest, ",")
			for i := range names {
				names[i] = strings.TrimSpace(names[i])
			}
			if curF != nil {
				curF.Uses = append(curF.Uses, names...)
			} else if curL != nil {
				curL.Uses = append(curL.Uses, names...)
			} else {
				return fmt.Errorf("%s:%d: uses outside func/lemma", s.file, s.line)
			}
		case "trusted":
			if curF == nil {
				return fmt.Errorf("%s:%d: trusted outside func", s.file, s.line)
			}
			curF.Trusted = strings.Trim(s.rest, "\"")
			if curF.Trusted == "" {
				curF.Trusted = "assumed"
			}
		case "pure":
			if curF != nil {
				curF.Pure = true
			}
		case "inline":
			if curF != nil {
				curF.Inline = true
			}
		case "nopanic":
			if curF != nil {
				curF.NoPanic = true
			}
		case "maypanic":
			if curF != nil {
				curF.MayPanic = true
			}
		case "refines":
			if curF != nil {
				curF.Refines = strings.TrimSpace(s.rest)
			}
		case "implements":
			if curF != nil {
				curF.Implements = strings.TrimSpace(s.rest)
			}
		case "props":
			if curF != nil {
				curF.Props = append(curF.Props, strings.Fields(strings.ReplaceAll(s.rest, ",", " "))...)
			} else if curL != nil {
				curL.Props = append(curL.Props, strings.Fields(strings.ReplaceAll(s.rest, ",", " "))...)
			}
		case "induction":
			if curL == nil {
				return fmt.Errorf("%s:%d: induction outside lemma", s.file, s.line)
			}
			// induction k from e
			w, rest := firstWord(s.rest)
			curL.Induction = w
			if fw, ex := firstWord(rest); fw == "from" {
				e, err := mk(s, ex)
				if err != nil {
					return err
				}
				curL.From = &e
			}
		case "trigger":
			if curL == nil {
				return fmt.Errorf("%s:%d: trigger outside lemma", s.file, s.line)
			}
			for _, part := range splitTopLevelComma(s.rest) {
				e, err := mk(s, part)
				if err != nil {
					return err
				}
				curL.Triggers = append(curL.Triggers, e)
			}
		}
	}
	return nil
}

func indexTopLevelEq(s string) int {
	depth := 0
	for i := 0; i < len(s); i++ {
		switch s[i] {
		case '(', '[':
			depth++
		case ')', ']':
			depth--
		case '=':
			if depth == 0 {
				if i+1 < len(s) && s[i+1] == '=' {
					i++
					continue
				}
				if i > 0 && (s[i-1] == '!' || s[i-1] == '<' || s[i-1] == '>' || s[i-1] == '=') {
					continue
				}
				return i
			}
		}
	}
	return -1
}

func splitTopLevelComma(s string) []string {
	var out []string
	depth := 0
	start := 0
	for i := 0; i < len(s); i++ {
		switch s[i] {
		case '(', '[', '{':
			depth++
		case ')', ']', '}':
			depth--
		case ',':
			if depth == 0 {
				out = append(out, s[start:i])
				start = i + 1
			}
		}
	}
	out = append(out, s[start:])
	return out
}

// parseSignature parses `target(params) (results)` / `target(params) T` /
// `target` where target may be `(T).m`, `(*T).m`, `pkg.f`, `f`.
func parseSignature(s string) (target string, params, results []Param, err error) {
	s = strings.TrimSpace(s)
	// target: up to the '(' that starts the parameter list
	i := 0
	if strings.HasPrefix(s, "(") {
		// receiver
		j := strings.Index(s, ")")
		if j < 0 {
			return "", nil, nil, fmt.Errorf("bad receiver in %q", s)
		}
		i = j + 1
	}
	j := i
	for j < len(s) && s[j] != '(' && s[j] != ' ' {
		j++
	}
	target = s[:j]
	rest := strings.TrimSpace(s[j:])
	if rest == "" {
		return target, nil, nil, nil
	}
	if rest[0] == '(' {
		k := matchParen(rest, 0)
		if k < 0 {
			return "", nil, nil, fmt.Errorf("unbalanced parens in %q", s)
		}
		params, err = parseParams(rest[1:k])
		if err != nil {
			return "", nil, nil, err
		}
		rest = strings.TrimSpace(rest[k+1:])
	}
	if rest != "" {
		if rest[0] == '(' {
			k := matchParen(rest, 0)
			if k < 0 {
				return "", nil, nil, fmt.Errorf("unbalanced parens in %q", s)
			}
			results, err = parseParams(rest[1:k])
			if err != nil {
				return "", nil, nil, err
			}
		} else {
			results = []Param{{Name: "", Type: rest}}
		}
	}
	return target, params, results, nil
}

func matchParen(s string, i int) int {
	depth := 0
	for ; i < len(s); i++ {
		switch s[i] {
		case '(':
			depth++
		case ')':
			depth--
			if depth == 0 {
				return i
			}
		}
	}
	return -1
}

func parseParams(s string) ([]Param, error) {
	var out []Param
	s = strings.TrimSpace(s)
	if s == "" {
		return nil, nil
	}
	for _, part := range splitTopLevelComma(s) {
		part = strings.TrimSpace(part)
		n, t := firstWord(part)
		out = append(out, Param{Name: n, Type: t})
	}
	// propagate types right-to-left for "a, b int"
	for i := len(out) - 2; i >= 0; i-- {
		if out[i].Type == "" {
			out[i].Type = out[i+1].Type
		}
	}
	return out, nil
}
