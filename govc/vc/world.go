package vc

import (
	"fmt"
	"go/ast"
	"go/token"
	"go/types"
	"os"
	"path/filepath"
	"sort"
	"strings"
	"sync"

	"golang.org/x/tools/go/packages"
	"golang.org/x/tools/go/ssa"
	"golang.org/x/tools/go/ssa/ssautil"
)

// World is the loaded program plus all contracts.
type World struct {
	fnIDByName map[string]int
	fnIDMu     sync.Mutex
	boundMu    sync.Mutex
	boundIdx   map[*types.Func]*ssa.Function
	RepoDir    string
	SpecDir    string
	Fset       *token.FileSet
	Prog       *ssa.Program
	Pkgs       map[string]*packages.Package
	SSAPkgs    map[string]*ssa.Package
	AllTypes   map[string]*types.Package // every package reachable (by path)
	Sorts      *Sorts
	C          *Contracts

	FuncC    map[*ssa.Function]*FuncContract // by origin function
	NamedC   map[string]*FuncContract        // functype/interface/extern contracts by key
	fnIDs    map[*ssa.Function]int
	fnByID   []*ssa.Function
	fnIDUsed map[int]bool
	specs    map[string]*specInfo
	strLits  map[string]string

	appDecls   map[string]string
	namedTypes []types.Type
	appOrder   []string

	errTemplates  []errTemplate
	TableProblems []string

	ContractFiles []string
	Unresolved    []string // contract targets that could not be resolved (reported)
}

// Load loads /repo (working tree) with -tags=verif and all contracts.
func Load(repoDir, specDir string) (*World, error) {
	fset := token.NewFileSet()
	cfg := &packages.Config{
		Mode:       packages.LoadAllSyntax,
		Dir:        repoDir,
		Fset:       fset,
		BuildFlags: []string{"-tags=verif"},
		Tests:      false,
	}
	pkgs, err := packages.Load(cfg, "./...")
	if err != nil {
		return nil, fmt.Errorf("packages.Load: %v", err)
	}
	var errs []string
	packages.Visit(pkgs, nil, func(p *packages.Package) {
		for _, e := range p.Errors {
			errs = append(errs, e.Error())
		}
	})
	if len(errs) > 0 {
		return nil, fmt.Errorf("repository does not type-check: %s", strings.Join(errs, "; "))
	}
	prog, spkgs := ssautil.AllPackages(pkgs, ssa.InstantiateGenerics|ssa.GlobalDebug)
	prog.Build()

	w := &World{
		RepoDir: repoDir, SpecDir: specDir, Fset: fset, Prog: prog,
		Pkgs: map[string]*packages.Package{}, SSAPkgs: map[string]*ssa.Package{},
		AllTypes: map[string]*types.Package{},
		Sorts:    NewSorts(), C: NewContracts(),
		FuncC: map[*ssa.Function]*FuncContract{}, NamedC: map[string]*FuncContract{},
		fnIDs: map[*ssa.Function]int{}, specs: map[string]*specInfo{}, strLits: map[string]string{},
	}
	for i, p := range pkgs {
		w.Pkgs[p.PkgPath] = p
		if spkgs[i] != nil {
			w.SSAPkgs[p.PkgPath] = spkgs[i]
		}
	}
	packages.Visit(pkgs, nil, func(p *packages.Package) {
		if p.Types != nil {
			w.AllTypes[p.PkgPath] = p.Types
		}
	})
	for _, sp := range prog.AllPackages() {
		if _, ok := w.SSAPkgs[sp.Pkg.Path()]; !ok {
			w.SSAPkgs[sp.Pkg.Path()] = sp
		}
	}

	// spec library first (oracles), then the contract files of the repo packages
	if specDir != "" {
		if err := w.C.LoadSpecDir(specDir); err != nil {
			return nil, err
		}
	}
	var paths []string
	for path := range w.Pkgs {
		paths = append(paths, path)
	}
	sort.Strings(paths)
	for _, path := range paths {
		p := w.Pkgs[path]
		for _, f := range p.Syntax {
			fname := fset.Position(f.Pos()).Filename
			if b := filepath.Base(fname); !strings.HasPrefix(b, "zz_verif_") || !strings.HasSuffix(b, ".go") {
				continue
			}
			w.ContractFiles = append(w.ContractFiles, fname)
			var lines []srcLine
			for _, cg := range f.Comments {
				for _, c := range cg.List {
					if strings.HasPrefix(c.Text, "//@") {
						lines = append(lines, srcLine{strings.TrimPrefix(c.Text, "//@"), fname, fset.Position(c.Pos()).Line})
					}
				}
			}
			if err := w.C.LoadCommentLines(lines, path); err != nil {
				return nil, err
			}
		}
	}
	if err := w.declareGhosts(); err != nil {
		return nil, err
	}
	if err := w.genErrorTables(); err != nil {
		return nil, err
	}
	w.resolveContracts()
	return w, nil
}

func (w *World) declareGhosts() error {
	for _, g := range w.C.Ghosts {
		t, err := w.ResolveType(g.Struct, g.ScopePkg)
		if err != nil {
			return fmt.Errorf("ghostfield %s.%s: %v", g.Struct, g.Name, err)
		}
		so, _, err := w.specSort(g.Type, g.ScopePkg)
		if err != nil {
			return fmt.Errorf("ghostfield %s.%s: %v", g.Struct, g.Name, err)
		}
		w.Sorts.DeclareGhostField(typeName(t), g.Name, so)
	}
	return nil
}

// specSort resolves a spec-level type spelling to a sort and (if any) Go type.
func (w *World) specSort(text, scope string) (Sort, types.Type, error) {
	text = strings.TrimSpace(text)
	switch text {
	case "int", "mathint", "":
		return SInt, nil, nil
	case "bool":
		return SBool, types.Typ[types.Bool], nil
	case "string":
		return SInt, types.Typ[types.String], nil
	case "byte":
		return SInt, types.Typ[types.Uint8], nil
	case "uint":
		return SInt, types.Typ[types.Uint], nil
	case "any":
		return SIface, types.NewInterfaceType(nil, nil), nil
	case "ref":
		return SInt, nil, nil
	}
	if strings.HasPrefix(text, "array[") { // array[K]V spec arrays
		k := matchBracket(text, len("array"))
		if k > 0 {
			ks, _, err := w.specSort(text[len("array["):k], scope)
			if err != nil {
				return "", nil, err
			}
			vs, _, err := w.specSort(text[k+1:], scope)
			if err != nil {
				return "", nil, err
			}
			return ArraySort(ks, vs), nil, nil
		}
	}
	t, err := w.ResolveType(text, scope)
	if err != nil {
		return "", nil, err
	}
	return w.Sorts.SortOf(t), t, nil
}

func matchBracket(s string, i int) int {
	depth := 0
	for ; i < len(s); i++ {
		switch s[i] {
		case '[':
			depth++
		case ']':
			depth--
			if depth == 0 {
				return i
			}
		}
	}
	return -1
}

// ResolveType resolves a Go type spelling in the scope of package scope.
func (w *World) ResolveType(text, scope string) (types.Type, error) {
	text = strings.TrimSpace(text)
	switch {
	case strings.HasPrefix(text, "*"):
		t, err := w.ResolveType(text[1:], scope)
		if err != nil {
			return nil, err
		}
		return types.NewPointer(t), nil
	case strings.HasPrefix(text, "[]"):
		t, err := w.ResolveType(text[2:], scope)
		if err != nil {
			return nil, err
		}
		return types.NewSlice(t), nil
	case strings.HasPrefix(text, "map["):
		k := matchBracket(text, 3)
		if k < 0 {
			return nil, fmt.Errorf("bad map type %q", text)
		}
		kt, err := w.ResolveType(text[4:k], scope)
		if err != nil {
			return nil, err
		}
		vt, err := w.ResolveType(text[k+1:], scope)
		if err != nil {
			return nil, err
		}
		return types.NewMap(kt, vt), nil
	}
	if obj := types.Universe.Lookup(text); obj != nil {
		if tn, ok := obj.(*types.TypeName); ok {
			return tn.Type(), nil
		}
	}
	// generic instantiation T[A]
	if i := strings.Index(text, "["); i > 0 && strings.HasSuffix(text, "]") {
		base, err := w.ResolveType(text[:i], scope)
		if err != nil {
			return nil, err
		}
		var targs []types.Type
		for _, a := range splitTopLevelComma(text[i+1 : len(text)-1]) {
			at, err := w.ResolveType(a, scope)
			if err != nil {
				return nil, err
			}
			targs = append(targs, at)
		}
		inst, err := types.Instantiate(nil, base, targs, false)
		if err != nil {
			return nil, err
		}
		return inst, nil
	}
	pkgName, name := "", text
	if i := strings.LastIndex(text, "."); i >= 0 {
		pkgName, name = text[:i], text[i+1:]
	}
	tp := w.lookupPackage(pkgName, scope)
	if tp == nil {
		return nil, fmt.Errorf("cannot resolve package %q (type %q, scope %q)", pkgName, text, scope)
	}
	obj := tp.Scope().Lookup(name)
	if obj == nil {
		return nil, fmt.Errorf("type %q not found in %s", name, tp.Path())
	}
	tn, ok := obj.(*types.TypeName)
	if !ok {
		return nil, fmt.Errorf("%q is not a type", text)
	}
	return tn.Type(), nil
}

// lookupPackage finds a package by local name/alias as seen from scope, or by
// path suffix.
func (w *World) lookupPackage(name, scope string) *types.Package {
	if name == "" {
		if p := w.AllTypes[scope]; p != nil {
			return p
		}
		return nil
	}
	if sp := w.Pkgs[scope]; sp != nil {
		// file-level import names of the scope package
		for _, f := range sp.Syntax {
			for _, imp := range f.Imports {
				path := strings.Trim(imp.Path.Value, "\"")
				local := ""
				if imp.Name != nil {
					local = imp.Name.Name
				} else if tp := w.AllTypes[path]; tp != nil {
					local = tp.Name()
				}
				if local == name {
					return w.AllTypes[path]
				}
			}
		}
		if sp.Types != nil && sp.Types.Name() == name {
			return sp.Types
		}
	}
	// by full path or unique path suffix / package name
	if p := w.AllTypes[name]; p != nil {
		return p
	}
	if p := w.AllTypes[modulePrefix+"/"+name]; p != nil {
		return p
	}
	var found *types.Package
	for path, p := range w.AllTypes {
		if strings.HasSuffix(path, "/"+name) || p.Name() == name {
			if strings.HasPrefix(path, modulePrefix) {
				return p
			}
			if found == nil || len(path) < len(found.Path()) {
				found = p
			}
		}
	}
	return found
}

// FuncKey is the canonical spelling of a function: "pkgpath.(T).m", "pkgpath.(*T).m", "pkgpath.f".
func FuncKey(fn *ssa.Function) string {
	if o := fn.Origin(); o != nil {
		fn = o
	}
	pkg := ""
	if fn.Pkg != nil {
		pkg = fn.Pkg.Pkg.Path()
	} else if fn.Object() != nil && fn.Object().Pkg() != nil {
		pkg = fn.Object().Pkg().Path()
	}
	if fn.Signature.Recv() != nil {
		rt := fn.Signature.Recv().Type()
		ptr := ""
		if p, ok := rt.(*types.Pointer); ok {
			rt = p.Elem()
			ptr = "*"
		}
		name := ""
		if n, ok := rt.(*types.Named); ok {
			name = n.Obj().Name()
			if n.Obj().Pkg() != nil {
				pkg = n.Obj().Pkg().Path()
			}
		}
		return pkg + ".(" + ptr + name + ")." + fn.Name()
	}
	if fn.Parent() != nil {
		return FuncKey(fn.Parent()) + "$" + strings.TrimPrefix(fn.Name(), fn.Parent().Name()+"$")
	}
	return pkg + "." + fn.Name()
}

// ShortFuncKey strips the module prefix.
func ShortFuncKey(fn *ssa.Function) string {
	k := FuncKey(fn)
	k = strings.TrimPrefix(k, modulePrefix+"/")
	k = strings.TrimPrefix(k, modulePrefix+".")
	return k
}

func (w *World) resolveContracts() {
	// index all functions by key
	byKey := map[string]*ssa.Function{}
	for fn := range ssautil.AllFunctions(w.Prog) {
		o := fn
		if fn.Origin() != nil {
			o = fn.Origin()
		}
		byKey[FuncKey(o)] = o
	}
	for _, fc := range w.C.Funcs {
		switch fc.Kind {
		case "functype", "interface":
			w.NamedC[fc.Kind+":"+fc.ScopePkg+"."+fc.Target] = fc
			continue
		}
		key := w.contractKey(fc)
		fn := byKey[key]
		if fn == nil {
			if fc.Kind == "extern" {
				w.NamedC["extern:"+key] = fc
				continue
			}
			w.Unresolved = append(w.Unresolved, fmt.Sprintf("%s:%d: contract target %s not found (key %s)", fc.File, fc.Line, fc.Target, key))
			continue
		}
		if prev := w.FuncC[fn]; prev != nil {
			w.Unresolved = append(w.Unresolved, fmt.Sprintf("%s:%d: duplicate contract for %s", fc.File, fc.Line, fc.Target))
			continue
		}
		w.FuncC[fn] = fc
	}
}

func (w *World) contractKey(fc *FuncContract) string {
	t := fc.Target
	scope := fc.ScopePkg
	if strings.HasPrefix(t, "(") {
		// (T).m or (*T).m or (pkg.T).m
		j := strings.Index(t, ")")
		recv, m := t[1:j], t[j+1:]
		ptr := ""
		if strings.HasPrefix(recv, "*") {
			ptr, recv = "*", recv[1:]
		}
		if i := strings.Index(recv, "["); i >= 0 { // generic receiver: strip type args
			recv = recv[:i]
		}
		pkgPath := scope
		if i := strings.LastIndex(recv, "."); i >= 0 {
			if p := w.lookupPackage(recv[:i], scope); p != nil {
				pkgPath = p.Path()
			}
			recv = recv[i+1:]
		}
		return pkgPath + ".(" + ptr + recv + ")" + m
	}
	if i := strings.LastIndex(t, "."); i >= 0 && !strings.Contains(t, "$") {
		if p := w.lookupPackage(t[:i], scope); p != nil {
			return p.Path() + "." + t[i+1:]
		}
	}
	return scope + "." + t
}

// ContractOf returns the contract of a function (nil if none).
func (w *World) ContractOf(fn *ssa.Function) *FuncContract {
	if fn == nil {
		return nil
	}
	o := fn
	if fn.Origin() != nil {
		o = fn.Origin()
	}
	if fc := w.FuncC[o]; fc != nil {
		return fc
	}
	if fc := w.NamedC["extern:"+FuncKey(fn)]; fc != nil {
		return fc
	}
	return nil
}

// FnID returns the integer identity of a function used as a value.
func (w *World) FnID(fn *ssa.Function) int {
	w.fnIDMu.Lock()
	defer w.fnIDMu.Unlock()
	if id, ok := w.fnIDs[fn]; ok {
		return id
	}
	if w.fnIDUsed == nil {
		w.fnIDUsed = map[int]bool{}
	}
	// the SSA builder creates a separate wrapper function for every occurrence of a
	// method value x.m: all wrappers of one method are the same code and share one
	// identity (keyed by the method, not by the wrapper's address or its short name)
	name := fnDisplay(fn)
	if fn.Synthetic != "" && fn.Object() != nil {
		name = fn.Synthetic
		if w.fnIDByName == nil {
			w.fnIDByName = map[string]int{}
		}
		if id, ok := w.fnIDByName[name]; ok {
			w.fnIDs[fn] = id
			return id
		}
	}
	id := stableID("fn:"+name, func(c int) bool { return w.fnIDUsed[c] })
	if os.Getenv("GOVC_DEBUG_FNID") != "" {
		fmt.Fprintf(os.Stderr, "FnID %p %s syn=%q -> %d\n", fn, fnDisplay(fn), fn.Synthetic, id)
	}
	if fn.Synthetic != "" && fn.Object() != nil {
		w.fnIDByName[name] = id
	}
	w.fnIDUsed[id] = true
	w.fnIDs[fn] = id
	w.fnByID = append(w.fnByID, fn)
	return id
}

// FuncsWithContracts returns the functions under contract in a stable order,
// generic origins expanded to their instantiations.
func (w *World) FuncsWithContracts() []*ssa.Function {
	var out []*ssa.Function
	all := ssautil.AllFunctions(w.Prog)
	for fn := range all {
		o := fn
		if fn.Origin() != nil {
			o = fn.Origin()
		}
		if w.FuncC[o] == nil || w.FuncC[o].Kind == "extern" {
			continue
		}
		if fn.TypeParams().Len() > 0 && len(fn.TypeArgs()) == 0 {
			continue // uninstantiated generic: only instantiations are verified
		}
		if fn.Blocks == nil {
			continue
		}
		if fc := w.FuncC[o]; fc.Inline && len(fc.Requires)+len(fc.Ensures) == 0 && usesRecover(fn) {
			continue // a deferred recover helper: checked in the context of each function that defers it
		}
		if fn.Synthetic != "" && !strings.Contains(fn.Synthetic, "instance of") {
			continue
		}
		out = append(out, fn)
	}
	sort.Slice(out, func(i, j int) bool { return fnDisplay(out[i]) < fnDisplay(out[j]) })
	return out
}

func fnDisplay(fn *ssa.Function) string {
	k := ShortFuncKey(fn)
	if len(fn.TypeArgs()) > 0 {
		var as []string
		for _, a := range fn.TypeArgs() {
			as = append(as, typeName(a))
		}
		k += "[" + strings.Join(as, ",") + "]"
	}
	return k
}

// lookupPkgObject finds a package-level object by (optionally qualified) name.
func (w *World) lookupPkgObject(pkgName, name, scope string) types.Object {
	p := w.lookupPackage(pkgName, scope)
	if p == nil {
		return nil
	}
	return p.Scope().Lookup(name)
}

func (w *World) ssaFuncFor(obj *types.Func) *ssa.Function { return w.Prog.FuncValue(obj) }

var _ = ast.Inspect

// FnDisplay is the printable, stable name of a function.
func FnDisplay(fn *ssa.Function) string { return fnDisplay(fn) }

// AppFun declares (once) an uninterpreted function symbol modelling callback
// application and returns its name.
func (w *World) AppFun(kind string, argSorts []string, res Sort, idx int) string {
	name := fmt.Sprintf("%s!%s", kind, sanitize(strings.Join(argSorts, "_")))
	if kind == "app" {
		name = fmt.Sprintf("app!%s!%d", sanitize(strings.Join(argSorts, "_")+"_"+string(res)), idx)
	}
	if w.appDecls == nil {
		w.appDecls = map[string]string{}
	}
	if _, ok := w.appDecls[name]; !ok {
		w.appDecls[name] = fmt.Sprintf("(declare-fun %s (%s) %s)", name, strings.Join(argSorts, " "), res)
		w.appOrder = append(w.appOrder, name)
	}
	return name
}

func (w *World) appDeclLines() string {
	var sb strings.Builder
	for _, n := range w.appOrder {
		sb.WriteString(w.appDecls[n])
		sb.WriteByte('\n')
	}
	return sb.String()
}

// AllModuleFuncs lists every function with a body that belongs to the module.
func (w *World) AllModuleFuncs() []*ssa.Function {
	var out []*ssa.Function
	for fn := range ssautil.AllFunctions(w.Prog) {
		pkg := fn.Pkg
		if pkg == nil && fn.Origin() != nil {
			pkg = fn.Origin().Pkg
		}
		if pkg == nil || !strings.HasPrefix(pkg.Pkg.Path(), modulePrefix) || fn.Blocks == nil {
			continue
		}
		if fn.TypeParams().Len() > 0 && len(fn.TypeArgs()) == 0 {
			continue
		}
		if fn.Synthetic != "" && !strings.Contains(fn.Synthetic, "instance of") {
			continue
		}
		out = append(out, fn)
	}
	sort.Slice(out, func(i, j int) bool { return fnDisplay(out[i]) < fnDisplay(out[j]) })
	return out
}

func usesRecover(fn *ssa.Function) bool {
	for _, b := range fn.Blocks {
		for _, ins := range b.Instrs {
			if c, ok := ins.(*ssa.Call); ok {
				if bi, ok := c.Call.Value.(*ssa.Builtin); ok && bi.Name() == "recover" {
					return true
				}
			}
		}
	}
	return false
}

func (w *World) inModule(path string) bool {
	return strings.HasPrefix(path, modulePrefix)
}

// allNamedTypes lists every non-generic named type declared at package level in the loaded program.
func (w *World) allNamedTypes() []types.Type {
	if w.namedTypes != nil {
		return w.namedTypes
	}
	var out []types.Type
	for _, p := range w.Prog.AllPackages() {
		for _, m := range p.Members {
			if t, ok := m.(*ssa.Type); ok {
				if nt, ok := t.Type().(*types.Named); ok && nt.TypeParams().Len() == 0 {
					out = append(out, nt)
				}
			}
		}
	}
	sort.Slice(out, func(i, j int) bool { return typeName(out[i]) < typeName(out[j]) })
	w.namedTypes = out
	return out
}

// boundWrapper finds the SSA bound-method wrapper (the code of a method value x.m)
// for method m of type t; nil when no such method value is created anywhere.
func (w *World) boundWrapper(t types.Type, m string) *ssa.Function {
	w.boundMu.Lock()
	defer w.boundMu.Unlock()
	if w.boundIdx == nil {
		w.boundIdx = map[*types.Func]*ssa.Function{}
		for fn := range ssautil.AllFunctions(w.Prog) {
			if strings.HasPrefix(fn.Synthetic, "bound method wrapper") {
				if o, ok := fn.Object().(*types.Func); ok {
					w.boundIdx[o] = fn
				}
			}
		}
	}
	for _, tt := range []types.Type{t, types.NewPointer(t)} {
		ms := types.NewMethodSet(tt)
		for i := 0; i < ms.Len(); i++ {
			if f, ok := ms.At(i).Obj().(*types.Func); ok && f.Name() == m {
				if bw := w.boundIdx[f]; bw != nil {
					return bw
				}
			}
		}
	}
	return nil
}
