package vc

import (
	"fmt"
	"go/ast"
	"go/constant"
	"go/token"
	"go/types"
	"sort"
	"strconv"
	"strings"

	"golang.org/x/tools/go/ssa"
)

// Tables extracted mechanically from the source on every run (DESIGN.md §C07):
// the message templates of errors.errorFormat.

type errTemplate struct {
	code  int64
	name  string
	arity int
	text  string
}

const errorsPkg = modulePrefix + "/errors"

// genErrorTables builds the spec function errArity(code) from the composite
// literal of errors.errorFormat and remembers the table for the assumptions
// attached to reads of that global.
func (w *World) genErrorTables() error {
	p := w.Pkgs[errorsPkg]
	if p == nil {
		return nil
	}
	var lit *ast.CompositeLit
	for _, f := range p.Syntax {
		for _, d := range f.Decls {
			gd, ok := d.(*ast.GenDecl)
			if !ok || gd.Tok != token.VAR {
				continue
			}
			for _, sp := range gd.Specs {
				vs := sp.(*ast.ValueSpec)
				for i, n := range vs.Names {
					if n.Name == "errorFormat" && i < len(vs.Values) {
						lit, _ = vs.Values[i].(*ast.CompositeLit)
					}
				}
			}
		}
	}
	if lit == nil {
		return fmt.Errorf("errors.errorFormat composite literal not found")
	}
	seen := map[int64]bool{}
	for _, el := range lit.Elts {
		kv, ok := el.(*ast.KeyValueExpr)
		if !ok {
			return fmt.Errorf("errors.errorFormat: unexpected element")
		}
		ktv, ok1 := p.TypesInfo.Types[kv.Key]
		vtv, ok2 := p.TypesInfo.Types[kv.Value]
		if !ok1 || !ok2 || ktv.Value == nil || vtv.Value == nil {
			return fmt.Errorf("errors.errorFormat: non-constant entry")
		}
		code, _ := constant.Int64Val(ktv.Value)
		text := constant.StringVal(vtv.Value)
		name := ""
		if id, ok := kv.Key.(*ast.Ident); ok {
			name = id.Name
		}
		if seen[code] {
			return fmt.Errorf("errors.errorFormat: duplicate key %d", code)
		}
		seen[code] = true
		w.errTemplates = append(w.errTemplates, errTemplate{code: code, name: name,
			arity: strings.Count(text, "%s") + strings.Count(text, "%q"), text: text})
	}
	sort.Slice(w.errTemplates, func(i, j int) bool { return w.errTemplates[i].code < w.errTemplates[j].code })
	// errArity(code): number of %s/%q verbs of the template, -1 if the code has none
	var body Expr = EUnary{"-", EInt{"1"}}
	for i := len(w.errTemplates) - 1; i >= 0; i-- {
		t := w.errTemplates[i]
		body = ECond{EBinary{"==", EIdent{"code"}, EInt{strconv.FormatInt(t.code, 10)}}, EInt{strconv.Itoa(t.arity)}, body}
	}
	sf := &SpecFunc{Name: "errArity", ScopePkg: errorsPkg, Params: []Param{{"code", "int"}}, Result: "int",
		Body: &Clause{E: body, Src: "generated from errors.errorFormat", File: "errors/code.go"}, File: "errors/code.go"}
	if _, dup := w.C.Specs[sf.Name]; dup {
		return fmt.Errorf("spec func errArity is generated; do not declare it")
	}
	w.C.Specs[sf.Name] = sf
	w.C.SpecOrd = append([]string{sf.Name}, w.C.SpecOrd...)
	// every ErrorCode constant must have a template (property C07: "every error code has a template")
	for _, n := range p.Types.Scope().Names() {
		c, ok := p.Types.Scope().Lookup(n).(*types.Const)
		if !ok || !strings.HasPrefix(n, "Err") {
			continue
		}
		if nt, ok := c.Type().(*types.Named); !ok || nt.Obj().Name() != "ErrorCode" {
			continue
		}
		v, _ := constant.Int64Val(c.Val())
		if !seen[v] {
			w.TableProblems = append(w.TableProblems, fmt.Sprintf("error code %s (%d) has no message template in errors.errorFormat", n, v))
		}
	}
	// the table may only be written by its initialiser
	if sp := w.SSAPkgs[errorsPkg]; sp != nil {
		if g, ok := sp.Members["errorFormat"].(*ssa.Global); ok {
			for _, m := range sp.Members {
				fn, ok := m.(*ssa.Function)
				if !ok {
					continue
				}
				w.checkTableReadOnly(fn, g)
				for _, an := range fn.AnonFuncs {
					w.checkTableReadOnly(an, g)
				}
			}
			for _, mset := range []string{"ErrorCode", "Errorf"} {
				if t, ok := sp.Members[mset].(*ssa.Type); ok {
					ms := w.Prog.MethodSets.MethodSet(t.Type())
					for i := 0; i < ms.Len(); i++ {
						if fn := w.Prog.MethodValue(ms.At(i)); fn != nil {
							w.checkTableReadOnly(fn, g)
						}
					}
				}
			}
		}
	}
	return nil
}

func (w *World) checkTableReadOnly(fn *ssa.Function, g *ssa.Global) {
	if fn.Name() == "init" {
		return
	}
	for _, b := range fn.Blocks {
		for _, ins := range b.Instrs {
			switch ins := ins.(type) {
			case *ssa.Store:
				if ins.Addr == g {
					w.TableProblems = append(w.TableProblems, "errors.errorFormat is assigned in "+fn.Name())
				}
			case *ssa.MapUpdate:
				if ld, ok := ins.Map.(*ssa.UnOp); ok && ld.X == g {
					w.TableProblems = append(w.TableProblems, "errors.errorFormat is updated in "+fn.Name())
				}
			}
		}
	}
}

// tableFacts are assumed about the function-entry heap when a function reads
// errors.errorFormat: the map holds exactly the templates of the literal.
func (f *Frame) tableFacts(g *ssa.Global, ref Term) {
	if g.Pkg == nil || g.Pkg.Pkg.Path() != errorsPkg || g.Name() != "errorFormat" || f.vc.tableDone {
		return
	}
	vc := f.vc
	vc.tableDone = true
	vc.Trusted["errors.errorFormat holds exactly the entries of its composite literal (extracted from the source on every run; no other assignment exists in package errors)"] = true
	h := f.entryHeap
	mref := Sel(h.Comp(cellComp(SInt), ArraySort(SInt, SInt)), ref)
	m := vc.Alias("errorFormat", mref)
	vc.Assume(Gt(m, IntLit(0)))
	md := Sel(h.Comp(mapDomComp(SInt, SInt), ArraySort(SInt, ArraySort(SInt, SBool))), m)
	mv := Sel(h.Comp(mapValComp(SInt, SInt), ArraySort(SInt, ArraySort(SInt, SInt))), m)
	vc.UseSpec("errArity")
	vc.UseSpec("strCount")
	k := Term{"k", SInt}
	vc.Assume(Forall([]Term{k}, Iff(Sel(md, k), Ge(App("sf!errArity", SInt, k), IntLit(0))), []Term{Sel(md, k)}))
	ps := vc.UseStrLit("%s")
	pq := vc.UseStrLit("%q")
	vc.Assume(Forall([]Term{k}, Implies(Sel(md, k),
		Eq(Add(App("sf!strCount", SInt, Sel(mv, k), ps), App("sf!strCount", SInt, Sel(mv, k), pq)), App("sf!errArity", SInt, k))),
		[]Term{Sel(mv, k)}))
}
