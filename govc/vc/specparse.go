package vc

import (
	"fmt"
	"strconv"
	"strings"
)

// ---- spec expression AST ----

type Expr interface{ exprNode() }

type (
	EIdent struct{ Name string }
	EInt   struct{ Val string }
	EBool  struct{ Val bool }
	EStr   struct{ Val string }
	ENil   struct{}
	EUnary struct {
		Op string
		X  Expr
	}
	EBinary struct {
		Op   string
		X, Y Expr
	}
	ECond struct{ C, A, B Expr }
	ECall struct {
		Fun  string // plain or qualified name
		Args []Expr
	}
	EIndex struct{ X, I Expr }
	ESlice struct{ X, Lo, Hi Expr } // Lo/Hi may be nil
	ESel   struct {
		X    Expr
		Name string
	}
	EOld   struct{ X Expr }
	EQuant struct {
		Forall   bool
		Vars     []QVar
		Triggers [][]Expr
		Body     Expr
	}
	ELet struct {
		Name string
		Val  Expr
		Body Expr
	}
)

type QVar struct {
	Name string
	Type string // "" = int
}

func (EIdent) exprNode()  {}
func (EInt) exprNode()    {}
func (EBool) exprNode()   {}
func (EStr) exprNode()    {}
func (ENil) exprNode()    {}
func (EUnary) exprNode()  {}
func (EBinary) exprNode() {}
func (ECond) exprNode()   {}
func (ECall) exprNode()   {}
func (EIndex) exprNode()  {}
func (ESlice) exprNode()  {}
func (ESel) exprNode()    {}
func (EOld) exprNode()    {}
func (EQuant) exprNode()  {}
func (ELet) exprNode()    {}

// ---- lexer ----

type tok struct {
	kind string // id int str char op eof
	text string
	pos  int
}

func lexSpec(src string) ([]tok, error) {
	var toks []tok
	i := 0
	for i < len(src) {
		c := src[i]
		switch {
		case c == ' ' || c == '\t' || c == '\n' || c == '\r':
			i++
		case isIdentStart(c):
			j := i
			for j < len(src) && (isIdentStart(src[j]) || src[j] >= '0' && src[j] <= '9') {
				j++
			}
			toks = append(toks, tok{"id", src[i:j], i})
			i = j
		case c >= '0' && c <= '9':
			j := i
			if c == '0' && j+1 < len(src) && (src[j+1] == 'x' || src[j+1] == 'X') {
				j += 2
				for j < len(src) && isHex(src[j]) {
					j++
				}
				n, err := strconv.ParseUint(src[i+2:j], 16, 64)
				if err != nil {
					return nil, err
				}
				toks = append(toks, tok{"int", strconv.FormatUint(n, 10), i})
			} else {
				for j < len(src) && (src[j] >= '0' && src[j] <= '9' || src[j] == '_') {
					j++
				}
				toks = append(toks, tok{"int", strings.ReplaceAll(src[i:j], "_", ""), i})
			}
			i = j
		case c == '\'':
			j := i + 1
			for j < len(src) && src[j] != '\'' {
				if src[j] == '\\' {
					j++
				}
				j++
			}
			if j >= len(src) {
				return nil, fmt.Errorf("unterminated char literal at %d", i)
			}
			r, _, _, err := strconv.UnquoteChar(src[i+1:j], '\'')
			if err != nil {
				return nil, fmt.Errorf("bad char literal %s: %v", src[i:j+1], err)
			}
			toks = append(toks, tok{"int", strconv.Itoa(int(r)), i})
			i = j + 1
		case c == '"':
			j := i + 1
			for j < len(src) && src[j] != '"' {
				if src[j] == '\\' {
					j++
				}
				j++
			}
			if j >= len(src) {
				return nil, fmt.Errorf("unterminated string literal at %d", i)
			}
			s, err := strconv.Unquote(src[i : j+1])
			if err != nil {
				return nil, fmt.Errorf("bad string literal %s: %v", src[i:j+1], err)
			}
			toks = append(toks, tok{"str", s, i})
			i = j + 1
		default:
			ops := []string{"<==>", "==>", "::", "==", "!=", "<=", ">=", "&&", "||"}
			matched := false
			for _, op := range ops {
				if strings.HasPrefix(src[i:], op) {
					toks = append(toks, tok{"op", op, i})
					i += len(op)
					matched = true
					break
				}
			}
			if matched {
				continue
			}
			if strings.ContainsRune("+-*/%<>!()[]{}.,:?=@#", rune(c)) {
				toks = append(toks, tok{"op", string(c), i})
				i++
				continue
			}
			return nil, fmt.Errorf("unexpected character %q at %d in %q", c, i, src)
		}
	}
	toks = append(toks, tok{"eof", "", len(src)})
	return toks, nil
}

func isIdentStart(c byte) bool {
	return c == '_' || c >= 'a' && c <= 'z' || c >= 'A' && c <= 'Z' || c == '$'
}
func isHex(c byte) bool {
	return c >= '0' && c <= '9' || c >= 'a' && c <= 'f' || c >= 'A' && c <= 'F'
}

// ---- parser ----

type specParser struct {
	toks []tok
	p    int
	src  string
}

func ParseExpr(src string) (e Expr, err error) {
	toks, err := lexSpec(src)
	if err != nil {
		return nil, err
	}
	ps := &specParser{toks: toks, src: src}
	defer func() {
		if r := recover(); r != nil {
			if pe, ok := r.(parseErr); ok {
				err = fmt.Errorf("%s in %q", string(pe), src)
				return
			}
			panic(r)
		}
	}()
	e = ps.expr()
	if ps.peek().kind != "eof" {
		ps.fail("unexpected %q", ps.peek().text)
	}
	return e, nil
}

type parseErr string

func (ps *specParser) fail(f string, a ...any) {
	panic(parseErr(fmt.Sprintf("parse error at %d: ", ps.peek().pos) + fmt.Sprintf(f, a...)))
}
func (ps *specParser) peek() tok { return ps.toks[ps.p] }
func (ps *specParser) next() tok { t := ps.toks[ps.p]; ps.p++; return t }
func (ps *specParser) isOp(s string) bool {
	t := ps.peek()
	return t.kind == "op" && t.text == s
}
func (ps *specParser) accept(s string) bool {
	if ps.isOp(s) {
		ps.p++
		return true
	}
	return false
}
func (ps *specParser) expect(s string) {
	if !ps.accept(s) {
		ps.fail("expected %q, got %q", s, ps.peek().text)
	}
}
func (ps *specParser) isKw(s string) bool {
	t := ps.peek()
	return t.kind == "id" && t.text == s
}

func (ps *specParser) expr() Expr { return ps.iff() }

func (ps *specParser) iff() Expr {
	x := ps.implies()
	for ps.accept("<==>") {
		y := ps.implies()
		x = EBinary{"<==>", x, y}
	}
	return x
}

func (ps *specParser) implies() Expr {
	x := ps.cond()
	if ps.accept("==>") {
		y := ps.implies()
		return EBinary{"==>", x, y}
	}
	return x
}

func (ps *specParser) cond() Expr {
	c := ps.or()
	if ps.accept("?") {
		a := ps.cond()
		ps.expect(":")
		b := ps.cond()
		return ECond{c, a, b}
	}
	return c
}

func (ps *specParser) or() Expr {
	x := ps.and()
	for ps.accept("||") {
		x = EBinary{"||", x, ps.and()}
	}
	return x
}

func (ps *specParser) and() Expr {
	x := ps.cmp()
	for ps.accept("&&") {
		x = EBinary{"&&", x, ps.cmp()}
	}
	return x
}

func (ps *specParser) cmp() Expr {
	x := ps.add()
	for {
		t := ps.peek()
		if t.kind == "op" && (t.text == "==" || t.text == "!=" || t.text == "<" || t.text == "<=" || t.text == ">" || t.text == ">=") {
			ps.p++
			y := ps.add()
			x = EBinary{t.text, x, y}
			continue
		}
		return x
	}
}

func (ps *specParser) add() Expr {
	x := ps.mul()
	for {
		if ps.accept("+") {
			x = EBinary{"+", x, ps.mul()}
		} else if ps.accept("-") {
			x = EBinary{"-", x, ps.mul()}
		} else {
			return x
		}
	}
}

func (ps *specParser) mul() Expr {
	x := ps.unary()
	for {
		if ps.accept("*") {
			x = EBinary{"*", x, ps.unary()}
		} else if ps.accept("/") {
			x = EBinary{"/", x, ps.unary()}
		} else if ps.accept("%") {
			x = EBinary{"%", x, ps.unary()}
		} else {
			return x
		}
	}
}

func (ps *specParser) unary() Expr {
	if ps.accept("!") {
		return EUnary{"!", ps.unary()}
	}
	if ps.accept("-") {
		return EUnary{"-", ps.unary()}
	}
	if ps.accept("*") { // pointer dereference
		return EUnary{"*", ps.unary()}
	}
	return ps.postfix()
}

func (ps *specParser) postfix() Expr {
	x := ps.primary()
	for {
		switch {
		case ps.accept("."):
			t := ps.next()
			if t.kind != "id" {
				ps.fail("expected field name")
			}
			// qualified call: a.b(args) where x is an identifier → treat as call "a.b"
			if id, ok := x.(EIdent); ok && ps.isOp("(") {
				ps.p++
				args := ps.args()
				x = ECall{id.Name + "." + t.text, args}
				continue
			}
			x = ESel{x, t.text}
		case ps.accept("["):
			if ps.accept(":") {
				var hi Expr
				if !ps.isOp("]") {
					hi = ps.expr()
				}
				ps.expect("]")
				x = ESlice{x, nil, hi}
				continue
			}
			i := ps.expr()
			if ps.accept(":") {
				var hi Expr
				if !ps.isOp("]") {
					hi = ps.expr()
				}
				ps.expect("]")
				x = ESlice{x, i, hi}
				continue
			}
			ps.expect("]")
			x = EIndex{x, i}
		default:
			return x
		}
	}
}

func (ps *specParser) args() []Expr {
	var args []Expr
	if ps.accept(")") {
		return args
	}
	for {
		args = append(args, ps.expr())
		if ps.accept(",") {
			continue
		}
		ps.expect(")")
		return args
	}
}

func (ps *specParser) primary() Expr {
	t := ps.next()
	switch t.kind {
	case "int":
		return EInt{t.text}
	case "str":
		return EStr{t.text}
	case "id":
		switch t.text {
		case "true":
			return EBool{true}
		case "false":
			return EBool{false}
		case "nil":
			return ENil{}
		case "old":
			ps.expect("(")
			x := ps.expr()
			ps.expect(")")
			return EOld{x}
		case "forall", "exists":
			return ps.quant(t.text == "forall")
		case "let":
			n := ps.next()
			if n.kind != "id" {
				ps.fail("expected name after let")
			}
			ps.expect("=")
			v := ps.expr()
			if !ps.isKw("in") {
				ps.fail("expected 'in'")
			}
			ps.p++
			b := ps.expr()
			return ELet{n.text, v, b}
		}
		if ps.isOp("(") {
			ps.p++
			return ECall{t.text, ps.args()}
		}
		return EIdent{t.text}
	case "op":
		if t.text == "(" {
			x := ps.expr()
			ps.expect(")")
			return x
		}
	}
	ps.p--
	ps.fail("unexpected token %q", t.text)
	return nil
}

func (ps *specParser) quant(forall bool) Expr {
	var vars []QVar
	for {
		n := ps.next()
		if n.kind != "id" {
			ps.fail("expected bound variable")
		}
		v := QVar{Name: n.text}
		// optional type: identifier or qualified/bracketed type up to , or :: or {
		if ps.peek().kind == "id" || ps.isOp("[") || ps.isOp("*") {
			v.Type = ps.typeText()
		}
		vars = append(vars, v)
		if ps.accept(",") {
			continue
		}
		break
	}
	var triggers [][]Expr
	for ps.accept("{") {
		var tr []Expr
		for {
			tr = append(tr, ps.expr())
			if ps.accept(",") {
				continue
			}
			ps.expect("}")
			break
		}
		triggers = append(triggers, tr)
	}
	ps.expect("::")
	body := ps.expr()
	return EQuant{forall, vars, triggers, body}
}

// typeText consumes a type spelling (e.g. int, []byte, *scanner, lexeme.LexEvent).
func (ps *specParser) typeText() string {
	var sb strings.Builder
	for {
		t := ps.peek()
		if t.kind == "op" && (t.text == "[" || t.text == "]" || t.text == "*" || t.text == ".") {
			sb.WriteString(t.text)
			ps.p++
			continue
		}
		if t.kind == "id" {
			sb.WriteString(t.text)
			ps.p++
			// continue only if followed by '.'
			if ps.isOp(".") {
				continue
			}
			return sb.String()
		}
		return sb.String()
	}
}
