package vc

import (
	"fmt"
	"go/token"
	"go/types"
	"os"
	"sort"
	"strings"

	"golang.org/x/tools/go/ssa"
)

// guardFor returns the guard declared for field `field` of struct type t.
func (w *World) guardFor(t types.Type, field string) *Guard {
	for _, g := range w.C.Guards {
		if g.Field != field {
			continue
		}
		gt, err := w.ResolveType(g.Struct, g.ScopePkg)
		if err != nil {
			continue
		}
		if types.Identical(gt, t) {
			return g
		}
	}
	return nil
}

// ---- loop havoc ----

type modSet struct {
	all     bool
	alloc   bool
	full    map[string]Sort            // comp → sort: havoc entirely
	target  map[string]map[string]Term // comp → base term text → base term
	sorts   map[string]Sort
	mapRefs map[string]Term // map refs (loop-invariant) mutated
	mapAny  bool
}

func newModSet() *modSet {
	return &modSet{full: map[string]Sort{}, target: map[string]map[string]Term{}, sorts: map[string]Sort{}, mapRefs: map[string]Term{}}
}

func (m *modSet) addFull(comp string, so Sort) {
	m.full[comp] = so
	m.sorts[comp] = so
}

func (m *modSet) addTarget(comp string, so Sort, base Term) {
	m.sorts[comp] = so
	if m.target[comp] == nil {
		m.target[comp] = map[string]Term{}
	}
	m.target[comp][base.S] = base
}

// invariantValue returns the symbolic value of v if it is defined outside the loop.
func (f *Frame) invariantValue(li *loopInfo, v ssa.Value) (Val, bool) {
	switch v.(type) {
	case *ssa.Const, *ssa.Global, *ssa.Function:
		return f.val(v), true
	case *ssa.Parameter, *ssa.FreeVar:
		x, ok := f.env[v]
		return x, ok
	}
	if ins, ok := v.(ssa.Instruction); ok {
		if li.blocks[ins.Block()] {
			// a load, inside the loop, of a field of a loop-invariant object is itself
			// loop-invariant if the loop never writes that field (checked after the scan)
			if ld, ok := v.(*ssa.UnOp); ok && ld.Op == token.MUL && li.stable != nil && li.preHeap != nil {
				if fa, ok := ld.X.(*ssa.FieldAddr); ok {
					if base, ok := f.invariantValue(li, fa.X); ok && base.Loc == nil {
						st := fa.X.Type().Underlying().(*types.Pointer).Elem()
						so := f.w.Sorts.SortOf(st)
						fi := f.w.Sorts.Struct(so).Fields[fa.Field]
						if !fi.Nested {
							comp := fieldComp(so, fi.Name)
							li.stable[comp] = true
							return Val{T: Sel(li.preHeap.Comp(comp, ArraySort(SInt, fi.Sort)), base.T)}, true
						}
					}
				}
			}
			return Val{}, false
		}
		x, ok := f.env[v]
		return x, ok
	}
	return Val{}, false
}

// storeTarget classifies the location written through address value a.
func (f *Frame) storeTarget(li *loopInfo, a ssa.Value, ms *modSet) {
	pt, ok := a.Type().Underlying().(*types.Pointer)
	if !ok {
		ms.all = true
		return
	}
	if v, ok := f.invariantValue(li, a); ok {
		f.modViaPointer(v, pt.Elem(), ms)
		return
	}
	switch x := a.(type) {
	case *ssa.FieldAddr:
		st := x.X.Type().Underlying().(*types.Pointer).Elem()
		so := f.w.Sorts.SortOf(st)
		fi := f.w.Sorts.Struct(so).Fields[x.Field]
		if base, ok := f.invariantValue(li, x.X); ok && base.Loc == nil {
			if fi.Nested {
				f.modViaPointer(Val{T: subRef(so, fi.Name, base.T)}, fi.Type, ms)
			} else {
				ms.addTarget(fieldComp(so, fi.Name), ArraySort(SInt, fi.Sort), base.T)
			}
			return
		} else if ok && base.Loc != nil {
			// a field of a struct that lives in a local variable (or inside another
			// location): the whole location is modified.  (This case used to fall through
			// to the heap component of the field's struct type and left the local
			// untouched: the loop then could not be left and what followed was vacuous.)
			f.modViaPointer(base, st, ms)
			return
		}
		if inner, ok := x.X.(*ssa.IndexAddr); ok {
			// field of a slice element
			f.storeTarget(li, inner, ms)
			return
		}
		if fi.Nested {
			f.fullStruct(fi.Type, ms)
		} else {
			ms.addFull(fieldComp(so, fi.Name), ArraySort(SInt, fi.Sort))
		}
	case *ssa.IndexAddr:
		var es Sort
		var et types.Type
		switch u := x.X.Type().Underlying().(type) {
		case *types.Slice:
			et = u.Elem()
			es = f.w.Sorts.SortOf(et)
			if base, ok := f.invariantValue(li, x.X); ok {
				ms.addTarget(memCompT(et), memSort(es), SArr(base.T))
				return
			}
		case *types.Pointer:
			et = u.Elem().Underlying().(*types.Array).Elem()
			es = f.w.Sorts.SortOf(et)
			if base, ok := f.invariantValue(li, x.X); ok && base.Loc == nil {
				ms.addTarget(memCompT(et), memSort(es), base.T)
				return
			}
		}
		if et != nil {
			ms.addFull(memCompT(et), memSort(es))
		}
	case *ssa.Alloc:
		// object allocated inside the loop: its components change at a fresh address only
		f.fullPointee(pt.Elem(), ms, true)
	default:
		f.fullPointee(pt.Elem(), ms, false)
	}
}

func (f *Frame) fullStruct(t types.Type, ms *modSet) {
	so := f.w.Sorts.SortOf(t)
	for _, fi := range f.w.Sorts.Struct(so).Fields {
		if fi.Nested {
			f.fullStruct(fi.Type, ms)
		} else {
			ms.addFull(fieldComp(so, fi.Name), ArraySort(SInt, fi.Sort))
		}
	}
}

func (f *Frame) fullPointee(t types.Type, ms *modSet, freshOnly bool) {
	switch u := t.Underlying().(type) {
	case *types.Struct:
		f.fullStruct(t, ms)
	case *types.Array:
		es := f.w.Sorts.SortOf(u.Elem())
		ms.addFull(memCompT(u.Elem()), memSort(es))
	default:
		so := f.w.Sorts.SortOf(t)
		ms.addFull(cellComp(so), ArraySort(SInt, so))
	}
}

func (f *Frame) modViaPointer(p Val, t types.Type, ms *modSet) {
	if p.Loc != nil {
		switch p.Loc.Kind {
		case locLocal:
			ms.addFull(p.Loc.Comp, p.Loc.CompSort)
		case locField, locCell, locElem:
			ms.addTarget(p.Loc.Comp, p.Loc.CompSort, p.Loc.Base)
		}
		return
	}
	switch u := t.Underlying().(type) {
	case *types.Struct:
		so := f.w.Sorts.SortOf(t)
		for _, fi := range f.w.Sorts.Struct(so).Fields {
			if fi.Nested {
				f.modViaPointer(Val{T: subRef(so, fi.Name, p.T)}, fi.Type, ms)
			} else {
				ms.addTarget(fieldComp(so, fi.Name), ArraySort(SInt, fi.Sort), p.T)
			}
		}
	case *types.Array:
		es := f.w.Sorts.SortOf(u.Elem())
		ms.addTarget(memCompT(u.Elem()), memSort(es), p.T)
	default:
		so := f.w.Sorts.SortOf(t)
		ms.addTarget(cellComp(so), ArraySort(SInt, so), p.T)
	}
}

// scanMods collects what the instructions of the given blocks may modify.
func (f *Frame) scanMods(li *loopInfo, blocks []*ssa.BasicBlock, ms *modSet, depth int) {
	for _, b := range blocks {
		for _, ins := range b.Instrs {
			switch ins := ins.(type) {
			case *ssa.Store:
				f.storeTarget(li, ins.Addr, ms)
			case *ssa.MapUpdate:
				f.modMap(li, ins.Map, ms)
			case *ssa.Alloc, *ssa.MakeSlice, *ssa.MakeMap, *ssa.MakeClosure:
				ms.alloc = true
				if mk, ok := ins.(*ssa.MakeSlice); ok {
					es := f.w.Sorts.SortOf(mk.Type().Underlying().(*types.Slice).Elem())
					ms.addFull(memCompT(mk.Type().Underlying().(*types.Slice).Elem()), memSort(es))
				}
				if mk, ok := ins.(*ssa.MakeMap); ok {
					f.modMapType(mk.Type().Underlying().(*types.Map), ms)
				}
				if al, ok := ins.(*ssa.Alloc); ok {
					f.fullPointee(al.Type().Underlying().(*types.Pointer).Elem(), ms, true)
				}
			case *ssa.Convert:
				if isString(ins.X.Type()) {
					if u, ok := ins.Type().Underlying().(*types.Slice); ok {
						ms.alloc = true
						es := f.w.Sorts.SortOf(u.Elem())
						ms.addFull(memCompT(u.Elem()), memSort(es))
					}
				}
			case ssa.CallInstruction:
				f.scanCallMods(li, ins, ms, depth)
			}
		}
	}
}

func (f *Frame) modMapType(mt *types.Map, ms *modSet) {
	ks, vs := f.w.Sorts.SortOf(mt.Key()), f.w.Sorts.SortOf(mt.Elem())
	ms.addFull(mapDomComp(ks, vs), ArraySort(SInt, ArraySort(ks, SBool)))
	ms.addFull(mapValComp(ks, vs), ArraySort(SInt, ArraySort(ks, vs)))
	ms.addFull(mapSizeComp(ks, vs), ArraySort(SInt, SInt))
}

func (f *Frame) modMap(li *loopInfo, m ssa.Value, ms *modSet) {
	mt := m.Type().Underlying().(*types.Map)
	ks, vs := f.w.Sorts.SortOf(mt.Key()), f.w.Sorts.SortOf(mt.Elem())
	if base, ok := f.invariantValue(li, m); ok {
		ms.addTarget(mapDomComp(ks, vs), ArraySort(SInt, ArraySort(ks, SBool)), base.T)
		ms.addTarget(mapValComp(ks, vs), ArraySort(SInt, ArraySort(ks, vs)), base.T)
		ms.addTarget(mapSizeComp(ks, vs), ArraySort(SInt, SInt), base.T)
		return
	}
	f.modMapType(mt, ms)
}

func (f *Frame) scanCallMods(li *loopInfo, ins ssa.CallInstruction, ms *modSet, depth int) {
	common := ins.Common()
	if b, ok := common.Value.(*ssa.Builtin); ok {
		switch b.Name() {
		case "append":
			es := f.w.Sorts.SortOf(common.Args[0].Type().Underlying().(*types.Slice).Elem())
			ms.addFull(memCompT(common.Args[0].Type().Underlying().(*types.Slice).Elem()), memSort(es))
			ms.alloc = true
		case "copy":
			es := f.w.Sorts.SortOf(common.Args[0].Type().Underlying().(*types.Slice).Elem())
			if base, ok := f.invariantValue(li, common.Args[0]); ok {
				ms.addTarget(memCompT(common.Args[0].Type().Underlying().(*types.Slice).Elem()), memSort(es), SArr(base.T))
			} else {
				ms.addFull(memCompT(common.Args[0].Type().Underlying().(*types.Slice).Elem()), memSort(es))
			}
		case "delete":
			f.modMap(li, common.Args[0], ms)
		}
		return
	}
	if common.IsInvoke() {
		key := "interface:" + ifaceKey(common.Value.Type()) + "." + common.Method.Name()
		if fc := f.w.NamedC[key]; fc != nil {
			f.contractMods(li, fc, nil, common, ms)
			return
		}
		ms.all = true
		return
	}
	callee := common.StaticCallee()
	if callee == nil {
		if named, ok := common.Value.Type().(*types.Named); ok {
			key := "functype:" + named.Obj().Pkg().Path() + "." + named.Obj().Name()
			if fc := f.w.NamedC[key]; fc != nil {
				f.contractMods(li, fc, nil, common, ms)
				return
			}
		}
		// a function-valued struct field with a contract: the contract's frame,
		// taken type-directed (every field of the struct named in a modifies
		// clause, at any address) - the object is the one holding the field
		if ld, ok := common.Value.(*ssa.UnOp); ok {
			if fa, ok := ld.X.(*ssa.FieldAddr); ok {
				if key, _, ok := f.fieldFuncKeyStatic(fa); ok {
					if fc := f.w.NamedC[key]; fc != nil {
						if fc.ModAll {
							ms.all = true
							return
						}
						pt := fa.X.Type().Underlying().(*types.Pointer)
						so := f.w.Sorts.SortOf(pt.Elem())
						info := f.w.Sorts.Struct(so)
						for _, m := range fc.Modifies {
							sel, isSel := m.E.(ESel)
							if !isSel {
								ms.all = true
								return
							}
							found := false
							for _, fi := range info.Fields {
								if fi.Name == sel.Name {
									found = true
									if fi.Nested {
										f.fullStruct(fi.Type, ms)
									} else {
										ms.addFull(fieldComp(so, fi.Name), ArraySort(SInt, fi.Sort))
									}
								}
							}
							if !found {
								ms.all = true
								return
							}
						}
						ms.alloc = true
						return
					}
				}
			}
		}
		// callback model: pure
		return
	}
	fc := f.w.ContractOf(callee)
	if fc != nil && !fc.Inline {
		f.contractMods(li, fc, callee, common, ms)
		return
	}
	if callee.Blocks != nil && depth < maxInlineDepth && f.inlinable(callee) {
		// inlined body: stores through its parameters cannot be mapped back cheaply → conservative
		sub := newModSet()
		dummy := &loopInfo{blocks: map[*ssa.BasicBlock]bool{}}
		for _, b := range callee.Blocks {
			dummy.blocks[b] = true
		}
		subFrame := &Frame{vc: f.vc, w: f.w, fn: callee, env: map[ssa.Value]Val{}, depth: depth + 1}
		subFrame.scanMods(dummy, callee.Blocks, sub, depth+1)
		if sub.all {
			ms.all = true
		}
		if sub.alloc {
			ms.alloc = true
		}
		for c, so := range sub.full {
			ms.addFull(c, so)
		}
		for c := range sub.target {
			ms.addFull(c, sub.sorts[c])
		}
		return
	}
	ms.all = true
}

func (f *Frame) contractMods(li *loopInfo, fc *FuncContract, callee *ssa.Function, common *ssa.CallCommon, ms *modSet) {
	ec := f.w.effectiveContract(fc)
	if ec.modAll {
		ms.all = true
		return
	}
	if !ec.pure {
		ms.alloc = true
	}
	if len(ec.modifies) == 0 {
		return
	}
	// try to evaluate owners with loop-invariant arguments
	var args []Val
	okAll := true
	vals := common.Args
	if common.IsInvoke() {
		vals = append([]ssa.Value{common.Value}, vals...)
	}
	for _, a := range vals {
		v, ok := f.invariantValue(li, a)
		if !ok {
			v = Val{} // placeholder: the name stays unbound; clauses that need it fail to evaluate
		}
		args = append(args, v)
	}
	if okAll {
		vars, err := f.bindContractNames(fc, callee, Term{}, args, common.Signature())
		if err == nil {
			// evaluate on a scratch heap to learn which components/bases are touched
			scratch := &Heap{comps: map[string]Term{}, vc: f.vc}
			for k, v := range li.preHeap.comps {
				scratch.comps[k] = v
			}
			env := &SpecEnv{W: f.w, Vars: vars, Heap: li.preHeap, Old: li.preHeap, Scope: fc.ScopePkg, Side: f.vc}
			failed := false
			for _, m := range ec.modifies {
				env.Scope = m.scope
				if !f.modTargetInto(env, m.c, ms) {
					failed = true
				}
			}
			if !failed {
				return
			}
		}
	}
	// fallback: whole components named by the modifies clauses
	for _, m := range ec.modifies {
		f.modClauseFull(fc, callee, m, ms)
	}
}

// modTargetInto records the target of a modifies expression evaluated in env.
func (f *Frame) modTargetInto(env *SpecEnv, c Clause, ms *modSet) bool {
	e := c.E
	elems := false
	if s, ok := e.(ESel); ok && s.Name == "$elems" {
		elems = true
		e = s.X
	}
	if elems {
		v, err := env.Eval(e)
		if err != nil {
			return false
		}
		v = env.value(v)
		if v.Go == nil {
			return false
		}
		switch u := v.Go.Underlying().(type) {
		case *types.Slice:
			// the slice header itself may be loop-variant (read from the heap): use full havoc
			es := f.w.Sorts.SortOf(u.Elem())
			ms.addFull(memCompT(u.Elem()), memSort(es))
			return true
		case *types.Map:
			f.modMapType(u, ms)
			return true
		}
		return false
	}
	switch x := e.(type) {
	case ESel:
		owner, err := env.Eval(x.X)
		if err != nil || owner.Go == nil {
			return false
		}
		t := owner.Go
		if p, ok := t.Underlying().(*types.Pointer); ok && !owner.Ref {
			t = p.Elem()
		}
		so := f.w.Sorts.SortOf(t)
		info := f.w.Sorts.Struct(so)
		if info == nil {
			return false
		}
		for _, fi := range info.Fields {
			if fi.Name == x.Name {
				if fi.Nested {
					f.modViaPointer(Val{T: subRef(so, fi.Name, owner.T)}, fi.Type, ms)
				} else {
					ms.addTarget(fieldComp(so, fi.Name), ArraySort(SInt, fi.Sort), owner.T)
				}
				return true
			}
		}
	case EUnary:
		if x.Op == "*" {
			p, err := env.Eval(x.X)
			if err != nil || p.Go == nil {
				return false
			}
			if pt, ok := p.Go.Underlying().(*types.Pointer); ok {
				f.modViaPointer(Val{T: p.T}, pt.Elem(), ms)
				return true
			}
		}
	}
	return false
}

func (f *Frame) modClauseFull(fc *FuncContract, callee *ssa.Function, m scopedClause, ms *modSet) {
	// The owner cannot be evaluated (loop-variant argument): havoc the whole
	// components the clause can touch, determined from the static types.
	var ptypes []types.Type
	var pnames []string
	if callee != nil {
		for _, p := range callee.Params {
			ptypes = append(ptypes, p.Type())
			pnames = append(pnames, p.Name())
		}
	}
	vars := map[string]SVal{}
	for i, n := range pnames {
		so := f.w.Sorts.SortOf(ptypes[i])
		vars[n] = SVal{T: Term{"dummy!" + n, so}, Go: ptypes[i]}
	}
	off := len(pnames) - len(fc.Params)
	if off >= 0 {
		for i, p := range fc.Params {
			if p.Name != "" {
				so := f.w.Sorts.SortOf(ptypes[off+i])
				vars[p.Name] = SVal{T: Term{"dummy!" + p.Name, so}, Go: ptypes[off+i]}
			}
		}
	}
	scratch := newModSet()
	dummyHeap := &Heap{comps: map[string]Term{}, vc: f.vc}
	env := &SpecEnv{W: f.w, Vars: vars, Heap: dummyHeap, Old: dummyHeap, Scope: m.scope, Side: f.vc}
	if callee == nil || !f.modTargetInto(env, m.c, scratch) {
		ms.all = true
		return
	}
	for c, so := range scratch.sorts {
		ms.addFull(c, so)
	}
	if scratch.all {
		ms.all = true
	}
}

func (f *Frame) havocLoop(li *loopInfo, st State) *Heap {
	vc := f.vc
	ms := newModSet()
	var blocks []*ssa.BasicBlock
	for b := range li.blocks {
		blocks = append(blocks, b)
	}
	sort.Slice(blocks, func(i, j int) bool { return blocks[i].Index < blocks[j].Index })
	li.stable = map[string]bool{}
	f.scanMods(li, blocks, ms, f.depth)
	for comp := range li.stable {
		_, full := ms.full[comp]
		if full || len(ms.target[comp]) > 0 || ms.all {
			// the assumption "field not written in the loop" failed: redo without it
			li.stable = nil
			ms = newModSet()
			f.scanMods(li, blocks, ms, f.depth)
			break
		}
	}
	if ms.all {
		vc.Comment("loop havocs the whole heap")
		return f.havocAll(st.Heap)
	}
	heap := st.Heap
	var comps []string
	for c := range ms.sorts {
		comps = append(comps, c)
	}
	sort.Strings(comps)
	for _, c := range comps {
		so := ms.sorts[c]
		if _, full := ms.full[c]; full {
			fc := vc.Fresh("lh."+c, so)
			vc.AssumeCompTyping(c, fc)
			heap = heap.Set(c, fc)
			if !strings.HasPrefix(c, "L!") {
				li.fullComps = append(li.fullComps, compRef{c, so})
			}
			continue
		}
		cur := heap.Comp(c, so)
		var bases []string
		for b := range ms.target[c] {
			bases = append(bases, b)
		}
		sort.Strings(bases)
		_, vs, _ := so.IsArray()
		for _, b := range bases {
			cur = Store(cur, ms.target[c][b], vc.Fresh("lh."+c, vs))
		}
		heap = heap.Set(c, vc.Define("h."+c, cur))
	}
	if ms.alloc {
		na := vc.Fresh("alloc", SInt)
		vc.Assume(Ge(na, st.Heap.Comp(allocComp, SInt)))
		heap = heap.Set(allocComp, na)
	}
	return heap
}

// ---- top-level verification of one function ----

// VerifyFunc generates all obligations of fn against its contract.
func (w *World) VerifyFunc(fn *ssa.Function) *VC {
	fc := w.ContractOf(fn)
	label := fnDisplay(fn)
	vc := NewVC(w, label)
	f := &Frame{vc: vc, w: w, fn: fn, fc: fc, label: label, top: true, env: map[ssa.Value]Val{}}
	heap := &Heap{comps: map[string]Term{}, vc: vc}
	f.entryHeap = heap
	vc.Assume(Ge(heap.Comp(allocComp, SInt), IntLit(0)))
	st := State{PC: True, Heap: heap}
	var args []Val
	for _, p := range fn.Params {
		c := vc.Fresh("p."+p.Name(), w.Sorts.SortOf(p.Type()))
		f.assumeType(p.Type(), c, st)
		v := Val{T: c}
		f.env[p] = v
		args = append(args, v)
	}
	for _, fv := range fn.FreeVars {
		c := vc.Fresh("fv."+fv.Name(), w.Sorts.SortOf(fv.Type()))
		f.assumeType(fv.Type(), c, st)
		if _, isPtr := fv.Type().Underlying().(*types.Pointer); isPtr {
			// a captured variable is passed by address: never nil
			vc.Assume(Ne(c, IntLit(0)))
		}
		f.env[fv] = Val{T: c}
	}
	if fc == nil {
		fc = &FuncContract{Kind: "func", Target: label, ScopePkg: f.scope(), Loops: map[int]*LoopSpec{}}
		f.fc = fc
	}
	if fc.Trusted != "" {
		vc.Trusted["contract of "+label+" is assumed: "+fc.Trusted] = true
		return vc
	}
	ec := w.effectiveContract(fc)
	vars, err := f.bindContractNames(fc, fn, Term{}, args, fn.Signature)
	if err != nil {
		f.fail("%v", err)
		return vc
	}
	if fc.Refines != "" {
		id := w.FnID(fn)
		vc.UseFnID(id)
		vars["fn"] = SVal{T: IntLit(int64(id))}
	}
	if fc.Implements != "" && len(args) > 0 {
		if sv, ok := f.selfIface(fn, args[0]); ok {
			vars["self"] = sv
		}
	}
	// a deferred recover helper verified on its own: `recovered` names what recover() returns
	if usesRecover(fn) {
		f.recoveredVal = vc.Fresh("recovered", SIface)
		for _, fact := range w.staticTypeFacts(types.NewInterfaceType(nil, nil), f.recoveredVal) {
			vc.Assume(fact)
		}
		vars["recovered"] = SVal{T: f.recoveredVal, Go: types.NewInterfaceType(nil, nil)}
	}
	// a closure's contract may name its captured variables (entry values)
	for _, fv := range fn.FreeVars {
		if _, dup := vars[fv.Name()]; dup {
			continue
		}
		bv := f.env[fv]
		pt, ok := fv.Type().Underlying().(*types.Pointer)
		if !ok {
			vars[fv.Name()] = SVal{T: bv.T, Go: fv.Type()}
			continue
		}
		if _, isStruct := pt.Elem().Underlying().(*types.Struct); isStruct && bv.Loc == nil {
			vars[fv.Name()] = SVal{T: bv.T, Go: pt.Elem(), Ref: true}
			continue
		}
		if lv, ok := f.tryLoad(bv, pt.Elem(), heap); ok {
			vars[fv.Name()] = SVal{T: lv, Go: pt.Elem()}
		}
	}
	pre := &SpecEnv{W: w, Vars: vars, Heap: heap, Old: heap, Scope: fc.ScopePkg, Side: vc}
	// termination of direct recursion: the measure at entry (checked at every call of
	// the function to itself, see applyContractFn)
	if fc.Decreases != nil {
		pre.Scope = fc.ScopePkg
		if v, err := pre.Eval(fc.Decreases.E); err != nil || pre.value(v).T.Sort != SInt {
			f.fail("decreases: %v", err)
		} else {
			vc.entryMeasure = vc.Define("measure", pre.value(v).T)
			vc.entryFn = fn
		}
	}
	var preTerms []Term
	for _, r := range ec.requires {
		pre.Scope = r.scope
		t, err := pre.EvalBool(r.c)
		if err != nil {
			f.fail("requires: %v", err)
			continue
		}
		vc.Assume(t)
		preTerms = append(preTerms, t)
	}
	for _, a := range fc.Assumes {
		pre.Scope = fc.ScopePkg
		t, err := pre.EvalBool(a)
		if err != nil {
			f.fail("assumes: %v", err)
			continue
		}
		vc.Trusted["assumed on entry of "+label+" (not checked at call sites): "+a.Src] = true
		vc.Assume(t)
		preTerms = append(preTerms, t)
	}
	// the function's own frame (used for the automatic loop frame invariants)
	if !ec.modAll {
		fms := newModSet()
		okFrame := true
		for _, m := range ec.modifies {
			pre.Scope = m.scope
			if !f.modTargetExact(pre, m.c, fms) {
				okFrame = false
			}
		}
		if okFrame {
			f.frameMS = fms
		}
	}
	// lemmas used by this function
	for _, ln := range fc.Uses {
		if err := w.assumeLemma(vc, ln); err != nil {
			f.fail("uses lemma %s: %v", ln, err)
		}
	}
	for _, uc := range fc.UseCalls {
		if err := w.assumeLemmaInstance(vc, pre, uc, True); err != nil {
			f.fail("uses %s: %v", uc.Src, err)
		}
	}
	// vacuity guard: the precondition must be satisfiable
	if len(ec.requires)+len(fc.Assumes) > 0 {
		cov := vc.Oblige(label, "cover", "entry", True, True, "precondition is satisfiable")
		cov.Negate = true
		cov.Trivial = false
	}

	f.run(st)

	// exits
	var normals, panics []Exit
	for _, e := range f.exits {
		if e.Panic {
			panics = append(panics, e)
		} else {
			normals = append(normals, e)
		}
	}
	check := func(exits []Exit, isPanic bool) {
		if len(exits) == 0 {
			return
		}
		var pc Term
		var h *Heap
		var res Val
		var pv Term
		if isPanic {
			var pcs []Term
			var heaps []*Heap
			var pvs []Val
			for i := range exits {
				exits[i].PC = vc.Define("pc", exits[i].PC)
				pcs = append(pcs, exits[i].PC)
				heaps = append(heaps, exits[i].Heap)
				pvs = append(pvs, Val{T: exits[i].PV})
			}
			pc = vc.Define("pc", Or(pcs...))
			h = heaps[0]
			if len(exits) > 1 {
				h = f.mergeHeaps(pcs, heaps)
			}
			pv = f.mergeVals("pv", pcs, pvs).T
		} else {
			pc, h, res = f.mergeExits(exits, fn.Signature)
			pv = w.Sorts.Zero(SIface)
		}
		// vacuity guard: the exit must not be provably unreachable (that would mean the
		// assumptions collected on the way contradict each other)
		if !isPanic {
			cov := vc.Oblige(label, "cover", "exit", True, pc, "the normal exit is reachable")
			cov.Negate = true
			cov.Trivial = false
		}
		// self-audit (GOVC_COVER_EXITS=1, not part of the registered checks): every single
		// exit should be reachable; an unreachable one is dead code or a vacuous path
		if os.Getenv("GOVC_COVER_EXITS") != "" && len(exits) > 1 {
			for i, ex := range exits {
				kind := "exit"
				if isPanic {
					kind = "panicexit"
				}
				cov := vc.Oblige(label, "cover", fmt.Sprintf("%s/%d", kind, i), True, ex.PC, "exit path is reachable")
				cov.Negate = true
				cov.Trivial = false
			}
		}
		post := &SpecEnv{W: w, Vars: map[string]SVal{}, Heap: h, Old: heap, Scope: fc.ScopePkg, Side: vc,
			Normal: BoolLit(!isPanic), Panics: BoolLit(isPanic), PV: pv}
		for k, v := range vars {
			post.Vars[k] = v
		}
		if !isPanic {
			f.bindResults(post.Vars, fc, fn, fn.Signature, res)
		} else {
			// result names are meaningless on the panic exit; bind them to arbitrary values
			// so that clauses of the form `normal && P(result) ==> Q` evaluate (to true)
			f.bindResults(post.Vars, fc, fn, fn.Signature, f.freshResults(fn.Signature, State{PC: False, Heap: h}))
		}
		for k, e := range ec.ensures {
			if isPanic && !mentionsExit(e.c.E) {
				continue
			}
			post.Scope = e.scope
			var t Term
			var err error
			if isPanic {
				t, err = evalPanicClause(post, e.c)
			} else {
				t, err = post.EvalBool(e.c)
			}
			if err != nil {
				f.fail("ensures: %v", err)
				continue
			}
			kind := "post"
			if isPanic {
				kind = "panicpost"
			}
			n0 := len(vc.Obls)
			vc.Oblige(label, kind, fmt.Sprintf("%d", k), pc, t, e.c.Src)
			if len(exits) > 1 && len(exits) <= 12 {
				for _, ob := range vc.Obls[n0:] {
					for _, ex := range exits {
						ob.Cases = append(ob.Cases, ex.PC)
					}
				}
			}
		}
		if isPanic && (ec.noPanic || ec.pure) {
			vc.Oblige(label, "nopanic", "", pc, False, "function must not panic")
		}
		// frame: one obligation per exit (cheaper than reasoning about the merged heap)
		if len(exits) > 1 {
			for _, e := range exits {
				f.frameObligation(label, ec, pre, heap, e.Heap, e.PC, isPanic)
			}
		} else {
			f.frameObligation(label, ec, pre, heap, h, pc, isPanic)
		}
	}
	check(normals, false)
	check(panics, true)
	return vc
}

// evalPanicClause evaluates an ensures clause on the panic exit, where result
// names are unbound: sub-formulas guarded by `normal ==>` vanish because
// normal is false; unbound result names make the clause inapplicable.
func evalPanicClause(env *SpecEnv, c Clause) (Term, error) {
	// `normal ==> X` is vacuous on the panic exit — skip X entirely
	if b, ok := c.E.(EBinary); ok && b.Op == "==>" {
		if id, ok := b.X.(EIdent); ok && id.Name == "normal" {
			return True, nil
		}
	}
	return env.EvalBool(c)
}

// frameObligation: everything outside the modifies clause is unchanged for
// addresses that were allocated at entry.
func (f *Frame) frameObligation(label string, ec *effContract, pre *SpecEnv, h0, h1 *Heap, pc Term, isPanic bool) {
	vc := f.vc
	if ec.modAll {
		// `modifies *` with `keeps T`: the fields of every T object allocated at entry are unchanged
		var goals []Term
		var infos []string
		alloc0 := h0.Comp(allocComp, SInt)
		for _, k := range ec.keeps {
			t, err := f.w.ResolveType(k, ec.scopePkg)
			if err != nil {
				f.fail("keeps %s: %v", k, err)
				continue
			}
			stt, ok := t.Underlying().(*types.Struct)
			if !ok {
				f.fail("keeps %s: only struct types can be checked", k)
				continue
			}
			so := f.w.Sorts.SortOf(t)
			for i := 0; i < stt.NumFields(); i++ {
				comp := fieldComp(so, stt.Field(i).Name())
				cs := ArraySort(SInt, f.w.Sorts.SortOf(stt.Field(i).Type()))
				t1, t0 := h1.Comp(comp, cs), h0.Comp(comp, cs)
				if t1.S == t0.S {
					continue
				}
				r := Term{"r!", SInt}
				root := App("root!", SInt, r)
				goals = append(goals, Forall([]Term{r}, Implies(And(Le(root, alloc0), Ne(r, IntLit(0)), Gt(root, IntLit(0))), Eq(Sel(t1, r), Sel(t0, r)))))
				infos = append(infos, comp)
			}
		}
		if len(goals) > 0 {
			suffix := "keeps"
			if isPanic {
				suffix = "keeps-panic"
			}
			vc.Oblige(label, "frame", suffix, pc, And(goals...), "objects kept unchanged: "+strings.Join(infos, ", "))
		}
		return
	}
	// collect allowed targets per component
	ms := newModSet()
	for _, m := range ec.modifies {
		pre.Scope = m.scope
		if !f.modTargetExact(pre, m.c, ms) {
			f.fail("modifies clause %q cannot be evaluated for the frame check", m.c.Src)
		}
	}
	alloc0 := h0.Comp(allocComp, SInt)
	suffix := ""
	if isPanic {
		suffix = "panic"
	}
	var goals []Term
	var infos []string
	for _, name := range compNames(h1) {
		if name == allocComp || strings.HasPrefix(name, "L!") {
			continue
		}
		t1 := h1.comps[name]
		t0 := h0.Comp(name, t1.Sort)
		if t1.S == t0.S {
			continue
		}
		if _, full := ms.full[name]; full {
			continue
		}
		r := Term{"r!", SInt}
		var excl []Term
		for _, b := range ms.target[name] {
			excl = append(excl, Ne(r, b))
		}
		_, vs, _ := t1.Sort.IsArray()
		_ = vs
		// addresses of objects allocated at entry, including their sub-objects
		// (negative addresses whose enclosing object root!(r) was allocated at entry)
		root := App("root!", SInt, r)
		cond := And(append([]Term{Le(root, alloc0), Ne(r, IntLit(0)), Ne(root, IntLit(0))}, excl...)...)
		goals = append(goals, Forall([]Term{r}, Implies(cond, Eq(Sel(t1, r), Sel(t0, r)))))
		infos = append(infos, name)
	}
	if len(goals) == 0 {
		return
	}
	vc.Oblige(label, "frame", suffix, pc, And(goals...), "unchanged outside modifies: "+strings.Join(infos, ", "))
}

// modTargetExact is like modTargetInto but keeps slice element targets precise.
func (f *Frame) modTargetExact(env *SpecEnv, c Clause, ms *modSet) bool {
	e := c.E
	if s, ok := e.(ESel); ok && s.Name == "$elems" {
		v, err := env.Eval(s.X)
		if err != nil {
			return false
		}
		v = env.value(v)
		if v.Go == nil {
			return false
		}
		switch u := v.Go.Underlying().(type) {
		case *types.Slice:
			es := f.w.Sorts.SortOf(u.Elem())
			ms.addTarget(memCompT(u.Elem()), memSort(es), SArr(v.T))
			return true
		case *types.Map:
			ks, vs := f.w.Sorts.SortOf(u.Key()), f.w.Sorts.SortOf(u.Elem())
			ms.addTarget(mapDomComp(ks, vs), ArraySort(SInt, ArraySort(ks, SBool)), v.T)
			ms.addTarget(mapValComp(ks, vs), ArraySort(SInt, ArraySort(ks, vs)), v.T)
			ms.addTarget(mapSizeComp(ks, vs), ArraySort(SInt, SInt), v.T)
			return true
		}
		return false
	}
	return f.modTargetInto(env, c, ms)
}

// ---- lemmas ----

func (w *World) lemmaEnv(vc *VC, lm *Lemma, suffix string) (*SpecEnv, []Term, error) {
	heap := &Heap{comps: map[string]Term{}, vc: vc}
	env := &SpecEnv{W: w, Vars: map[string]SVal{}, Heap: heap, Old: heap, Scope: lm.ScopePkg, Side: vc}
	var vars []Term
	for _, p := range lm.Params {
		so, gt, err := w.specSort(p.Type, lm.ScopePkg)
		if err != nil {
			return nil, nil, err
		}
		t := Term{"l!" + p.Name + suffix, so}
		vars = append(vars, t)
		env.Vars[p.Name] = SVal{T: t, Go: gt}
	}
	return env, vars, nil
}

// lemmaStatement returns ∀params. requires ⇒ ensures.
func (w *World) lemmaStatement(vc *VC, lm *Lemma) (Term, error) {
	env, vars, err := w.lemmaEnv(vc, lm, "")
	if err != nil {
		return Term{}, err
	}
	var req, ens []Term
	for _, r := range lm.Requires {
		t, err := env.EvalBool(r)
		if err != nil {
			return Term{}, err
		}
		req = append(req, t)
	}
	for _, e := range lm.Ensures {
		t, err := env.EvalBool(e)
		if err != nil {
			return Term{}, err
		}
		ens = append(ens, t)
	}
	var pats [][]Term
	if len(lm.Triggers) > 0 {
		var p []Term
		for _, tr := range lm.Triggers {
			v, err := env.Eval(tr.E)
			if err != nil {
				return Term{}, err
			}
			p = append(p, env.value(v).T)
		}
		pats = append(pats, p)
	}
	return Forall(vars, Implies(And(req...), And(ens...)), pats...), nil
}

// assumeLemmaInstance assumes requires ⇒ ensures of a lemma for the given
// argument expressions (evaluated in env). Lemmas are proved separately, so an
// instance is a valid fact wherever it is stated.
func (w *World) assumeLemmaInstance(vc *VC, env *SpecEnv, call Clause, pc Term) error {
	c, ok := call.E.(ECall)
	if !ok {
		return fmt.Errorf("expected lemma(args)")
	}
	lm := w.C.Lemmas[c.Fun]
	if lm == nil {
		return fmt.Errorf("unknown lemma %s", c.Fun)
	}
	if len(c.Args) != len(lm.Params) {
		return fmt.Errorf("lemma %s takes %d arguments", c.Fun, len(lm.Params))
	}
	if vc.lemmasUsed == nil {
		vc.lemmasUsed = map[string]bool{}
	}
	vc.lemmasUsed[c.Fun] = true
	inst := &SpecEnv{W: w, Vars: map[string]SVal{}, Heap: env.Heap, Old: env.Old, Scope: lm.ScopePkg, Side: vc}
	for i, p := range lm.Params {
		v, err := env.Eval(c.Args[i])
		if err != nil {
			return err
		}
		v = env.value(v)
		so, _, err := w.specSort(p.Type, lm.ScopePkg)
		if err != nil {
			return err
		}
		if v.T.Sort != so {
			return fmt.Errorf("lemma %s: argument %d has sort %s, want %s", c.Fun, i, v.T.Sort, so)
		}
		inst.Vars[p.Name] = v
	}
	var req, ens []Term
	for _, r := range lm.Requires {
		t, err := inst.EvalBool(r)
		if err != nil {
			return err
		}
		req = append(req, t)
	}
	for _, e := range lm.Ensures {
		t, err := inst.EvalBool(e)
		if err != nil {
			return err
		}
		ens = append(ens, t)
	}
	vc.Comment("lemma instance " + call.Src)
	vc.Assume(Implies(pc, Implies(And(req...), And(ens...))))
	return nil
}

func (w *World) assumeLemma(vc *VC, name string) error {
	lm := w.C.Lemmas[name]
	if lm == nil {
		return fmt.Errorf("unknown lemma")
	}
	st, err := w.lemmaStatement(vc, lm)
	if err != nil {
		return err
	}
	if vc.lemmasUsed == nil {
		vc.lemmasUsed = map[string]bool{}
	}
	vc.lemmasUsed[name] = true
	vc.Comment("lemma " + name)
	vc.Assume(st)
	return nil
}

// VerifyLemma generates the proof obligations of a lemma.
func (w *World) VerifyLemma(lm *Lemma) *VC {
	vc := NewVC(w, "lemma "+lm.Name)
	for _, u := range lm.Uses {
		if err := w.assumeLemma(vc, u); err != nil {
			vc.Errorf("lemma %s uses %s: %v", lm.Name, u, err)
		}
	}
	env, vars, err := w.lemmaEnv(vc, lm, "")
	if err != nil {
		vc.Errorf("lemma %s: %v", lm.Name, err)
		return vc
	}
	for _, v := range vars {
		vc.Lines = append(vc.Lines, fmt.Sprintf("(declare-const %s %s)", v.S, v.Sort))
	}
	evalAll := func(cs []Clause) []Term {
		var out []Term
		for _, c := range cs {
			t, err := env.EvalBool(c)
			if err != nil {
				vc.Errorf("lemma %s: %v", lm.Name, err)
				continue
			}
			out = append(out, t)
		}
		return out
	}
	req := evalAll(lm.Requires)
	ens := evalAll(lm.Ensures)
	label := "lemma." + lm.Name
	if lm.Induction == "" {
		for _, r := range req {
			vc.Assume(r)
		}
		vc.Oblige(label, "lemma", "direct", True, And(ens...), "direct proof")
		return vc
	}
	// induction on k from base: prove P(base) and P(k) ⇒ P(k+1) for k ≥ base,
	// where P(k) = ∀ other params. requires ⇒ ensures.
	kv, ok := env.Vars[lm.Induction]
	if !ok {
		vc.Errorf("lemma %s: induction variable %s is not a parameter", lm.Name, lm.Induction)
		return vc
	}
	base := IntLit(0)
	if lm.From != nil {
		b, err := env.Eval(lm.From.E)
		if err != nil {
			vc.Errorf("lemma %s: %v", lm.Name, err)
			return vc
		}
		base = b.T
	}
	// base case
	{
		benv := env.with(lm.Induction, SVal{T: base})
		var breq, bens []Term
		for _, c := range lm.Requires {
			t, _ := benv.EvalBool(c)
			breq = append(breq, t)
		}
		for _, c := range lm.Ensures {
			t, _ := benv.EvalBool(c)
			bens = append(bens, t)
		}
		vc.Oblige(label, "lemma", "base", And(breq...), And(bens...), "base case "+lm.Induction+" = "+base.S)
	}
	// step: assume the statement for k (all other params universally quantified), prove for k+1
	{
		// hypothesis: ∀others. req(k) ⇒ ens(k)
		henv, hvars, _ := w.lemmaEnv(vc, lm, "!h")
		henv.Vars[lm.Induction] = kv
		var others []Term
		for i, p := range lm.Params {
			if p.Name != lm.Induction {
				others = append(others, hvars[i])
			}
		}
		var hreq, hens []Term
		for _, c := range lm.Requires {
			t, _ := henv.EvalBool(c)
			hreq = append(hreq, t)
		}
		for _, c := range lm.Ensures {
			t, _ := henv.EvalBool(c)
			hens = append(hens, t)
		}
		hyp := Forall(others, Implies(And(hreq...), And(hens...)))
		vc.Assume(Ge(kv.T, base))
		vc.Assume(hyp)
		senv := env.with(lm.Induction, SVal{T: Add(kv.T, IntLit(1))})
		var sreq, sens []Term
		for _, c := range lm.Requires {
			t, _ := senv.EvalBool(c)
			sreq = append(sreq, t)
		}
		for _, c := range lm.Ensures {
			t, _ := senv.EvalBool(c)
			sens = append(sens, t)
		}
		vc.Oblige(label, "lemma", "step", And(sreq...), And(sens...), "induction step "+lm.Induction+" → "+lm.Induction+"+1")
	}
	return vc
}

var _ = token.ADD

// frameFormula: component comp of heap h agrees with the function-entry heap on
// every address allocated at entry that the function's modifies clause does
// not name.
func (f *Frame) frameFormula(comp compRef, h *Heap) (Term, bool) {
	top := f
	if top.frameMS == nil || top.entryHeap == nil {
		return Term{}, false
	}
	if _, full := top.frameMS.full[comp.name]; full {
		return True, true
	}
	cur := h.Comp(comp.name, comp.sort)
	orig := top.entryHeap.Comp(comp.name, comp.sort)
	if cur.S == orig.S {
		return True, true
	}
	r := Term{"r!", SInt}
	conds := []Term{Le(r, top.entryHeap.Comp(allocComp, SInt)), Ne(r, IntLit(0))}
	for _, b := range top.frameMS.target[comp.name] {
		conds = append(conds, Ne(r, b))
	}
	return Forall([]Term{r}, Implies(And(conds...), Eq(Sel(cur, r), Sel(orig, r))), []Term{Sel(cur, r)}), true
}
