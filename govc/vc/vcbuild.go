package vc

import (
	"fmt"
	"go/types"
	"golang.org/x/tools/go/ssa"
	"sort"
	"strings"
	"sync"
)

// Heap is an immutable map from component name to its current term.
type Heap struct {
	comps     map[string]Term
	vc        *VC
	epochBase string // non-empty after a whole-heap havoc: untouched components resolve to this epoch
	// a heap merged from paths that resolve untouched components differently (one of them
	// went through a whole-heap havoc): a component first mentioned AFTER the merge is the
	// if-then-else of what the paths say about it
	parts   []*Heap
	partPCs []Term
}

func (h *Heap) Comp(name string, sort Sort) Term {
	if t, ok := h.comps[name]; ok {
		return t
	}
	if len(h.parts) > 0 {
		n := len(h.parts)
		t := h.parts[n-1].Comp(name, sort)
		same := true
		for i := n - 2; i >= 0; i-- {
			ti := h.parts[i].Comp(name, sort)
			if ti.S != t.S {
				same = false
			}
			t = Ite(h.partPCs[i], ti, t)
		}
		if same {
			t = h.parts[n-1].Comp(name, sort)
		} else {
			t = h.vc.Define("h."+name, t)
		}
		h.comps[name] = t
		return t
	}
	if h.epochBase != "" {
		return h.vc.epochComp(h.epochBase, name, sort)
	}
	return h.vc.initialComp(name, sort)
}

func (h *Heap) Set(name string, t Term) *Heap {
	n := &Heap{comps: make(map[string]Term, len(h.comps)+1), vc: h.vc, epochBase: h.epochBase, parts: h.parts, partPCs: h.partPCs}
	for k, v := range h.comps {
		n.comps[k] = v
	}
	n.comps[name] = t
	return n
}

// Names returns every component that either heap mentions.
func compNames(hs ...*Heap) []string {
	seen := map[string]bool{}
	for _, h := range hs {
		for k := range h.comps {
			seen[k] = true
		}
	}
	var out []string
	for k := range seen {
		out = append(out, k)
	}
	sort.Strings(out)
	return out
}

// Obligation is one proof obligation: under the first Prefix lines of the VC,
// PC implies Goal.
type Obligation struct {
	Name     string
	Kind     string
	Func     string
	Prefix   int
	PC       Term
	Goal     Term
	Info     string // human-readable description (clause source etc.)
	Negate   bool   // cover obligation: must NOT be provable
	Cases    []Term // exit path conditions whose disjunction is PC: the goal may be proved exit by exit
	vc       *VC
	Trivial  bool
	UsesSpec map[string]bool
}

// VC accumulates the declarations, assumptions and obligations of one
// top-level verification task (one function, or one lemma).
type VC struct {
	W            *World
	Name         string
	Lines        []string
	declared     map[string]bool
	compSorts    map[string]Sort
	Obls         []*Obligation
	n            int
	usedSpecs    map[string]bool
	usedLits     map[string]bool
	usedFns      map[int]bool
	Trusted      map[string]bool // assumptions this VC relied on
	Outside      map[string]bool // constructs outside the subset that were abstracted
	ordinals     map[string]int
	Errors       []string
	epoch        int
	globals      []string
	ifaceAsserts map[string]types.Type
	cwFacts      map[string]string
	implText     string
	implDone     bool
	names        map[string]int
	tableDone    bool
	defs         map[string]string
	lemmasUsed   map[string]bool
	entryMeasure Term                     // value of the function's `decreases` measure at entry
	entryFn      *ssa.Function            // the function being verified (for its recursive calls)
	privateCells []privCell               // cells of locals no callee can reach (kept across `modifies *`)
	strProv      map[string]strProvenance // string constants created by string([]byte): their source bytes
}

type strProvenance struct {
	arr, off, n Term
}

func NewVC(w *World, name string) *VC {
	return &VC{W: w, Name: name, declared: map[string]bool{}, compSorts: map[string]Sort{},
		usedSpecs: map[string]bool{}, usedLits: map[string]bool{}, usedFns: map[int]bool{},
		Trusted: map[string]bool{}, Outside: map[string]bool{}, ordinals: map[string]int{}}
}

func (vc *VC) UseSpec(name string) { vc.usedSpecs[name] = true }
func (vc *VC) UseStrLit(s string) Term {
	vc.usedLits[s] = true
	return vc.W.strLitTerm(s)
}
func (vc *VC) UseFnID(id int) { vc.usedFns[id] = true }

func (vc *VC) epochComp(epoch, name string, sort Sort) Term {
	c := epoch + "!" + name
	if !vc.declared[c] {
		vc.declared[c] = true
		if _, ok := vc.compSorts[name]; !ok {
			vc.compSorts[name] = sort
		}
		vc.Lines = append(vc.Lines, fmt.Sprintf("(declare-const %s %s)", c, sort))
		vc.AssumeCompTyping(name, Term{c, sort})
	}
	return Term{c, sort}
}

// AssumeCompTyping states the heap typing invariant for a freshly introduced
// (initial or havoc'd) heap component: every stored value is a value of the
// field's / element's Go type (integer ranges, slice headers well-formed).
func (vc *VC) AssumeCompTyping(name string, comp Term) {
	var t types.Type
	twoLevel := false
	switch {
	case strings.HasPrefix(name, "F!"):
		rest := name[2:]
		i := strings.LastIndex(rest, "!")
		if i < 0 {
			return
		}
		info := vc.W.Sorts.structs[rest[:i]]
		if info == nil {
			return
		}
		for _, f := range info.Fields {
			if f.Name == rest[i+1:] {
				t = f.Type
			}
		}
	case strings.HasPrefix(name, "M!"):
		t = compElemTypes[name]
		twoLevel = true
	case strings.HasPrefix(name, "MV!") && strings.HasSuffix(name, "!Iface"):
		// map values of interface type: dynamic type tags are non-negative
		r, k := Term{"r!", SInt}, Term{"k!", Sort(strings.TrimSuffix(strings.TrimPrefix(name, "MV!"), "!Iface"))}
		if !strings.ContainsAny(string(k.Sort), "!()") {
			v := Sel(Sel(comp, r), k)
			vc.Lines = append(vc.Lines, "(assert "+Forall([]Term{r, k}, And(Ge(ITag(v), IntLit(0)), Implies(Eq(ITag(v), IntLit(0)), Eq(IVal(v), IntLit(0)))), []Term{v}).S+")")
		}
		return
	}
	if t == nil {
		return
	}
	r := Term{"r!", SInt}
	var v Term
	vars := []Term{r}
	if twoLevel {
		j := Term{"j!", SInt}
		vars = append(vars, j)
		v = Sel(Sel(comp, r), j)
	} else {
		v = Sel(comp, r)
	}
	facts := vc.W.staticTypeFacts(t, v)
	if len(facts) == 0 {
		return
	}
	vc.Lines = append(vc.Lines, "(assert "+Forall(vars, And(facts...), []Term{v}).S+")")
}

// staticTypeFacts: facts every value of Go type t satisfies that do not depend on the heap.
func (w *World) staticTypeFacts(t types.Type, v Term) []Term {
	var out []Term
	switch t.Underlying().(type) {
	case *types.Basic:
		if lo, hi, ok := IntRange(t); ok {
			out = append(out, Le(BigLit(lo), v), Le(v, BigLit(hi)))
		}
	case *types.Slice:
		out = append(out, Ge(SLen(v), IntLit(0)), Ge(SCap(v), SLen(v)), Ge(SOff(v), IntLit(0)),
			Le(SCap(v), Term{"9223372036854775807", SInt}), Ge(SArr(v), IntLit(0)),
			Implies(Eq(SArr(v), IntLit(0)), And(Eq(SCap(v), IntLit(0)), Eq(SOff(v), IntLit(0)))))
	case *types.Map:
		out = append(out, Ge(v, IntLit(0)))
	case *types.Struct:
		so := w.Sorts.SortOf(t)
		info := w.Sorts.Struct(so)
		for i, fi := range info.Fields {
			if fi.Ghost || fi.Type == nil {
				continue
			}
			out = append(out, w.staticTypeFacts(fi.Type, w.Sorts.FieldOf(v, i))...)
		}
	case *types.Interface:
		out = append(out, Ge(ITag(v), IntLit(0)), Implies(Eq(ITag(v), IntLit(0)), Eq(IVal(v), IntLit(0))))
	}
	return out
}

func (vc *VC) initialComp(name string, sort Sort) Term {
	c := "h0!" + name
	if !vc.declared[c] {
		vc.declared[c] = true
		vc.compSorts[name] = sort
		vc.Lines = append(vc.Lines, fmt.Sprintf("(declare-const %s %s)", c, sort))
		vc.AssumeCompTyping(name, Term{c, sort})
		if name != allocComp {
			vc.assumeClosedHeap(name, Term{c, sort}, vc.initialComp(allocComp, SInt))
		}
	}
	return Term{c, sort}
}

// assumeClosedHeap: the entry heap is closed - every reference stored in it (slice
// backing arrays, pointers, maps) denotes something allocated at entry.
func (vc *VC) assumeClosedHeap(name string, comp Term, alloc Term) {
	var t types.Type
	twoLevel := false
	switch {
	case strings.HasPrefix(name, "F!"):
		rest := name[2:]
		i := strings.LastIndex(rest, "!")
		if i < 0 {
			return
		}
		info := vc.W.Sorts.structs[rest[:i]]
		if info == nil {
			return
		}
		for _, f := range info.Fields {
			if f.Name == rest[i+1:] {
				t = f.Type
			}
		}
	case strings.HasPrefix(name, "M!"):
		t = compElemTypes[name]
		twoLevel = true
	}
	if t == nil {
		return
	}
	r := Term{"r!", SInt}
	vars := []Term{r}
	var v Term
	if twoLevel {
		j := Term{"j!", SInt}
		vars = append(vars, j)
		v = Sel(Sel(comp, r), j)
	} else {
		v = Sel(comp, r)
	}
	var facts []Term
	var walk func(t types.Type, v Term, depth int)
	walk = func(t types.Type, v Term, depth int) {
		switch u := t.Underlying().(type) {
		case *types.Slice:
			facts = append(facts, Le(SArr(v), alloc))
		case *types.Pointer, *types.Map:
			facts = append(facts, Le(v, alloc))
			if _, isPtr := u.(*types.Pointer); isPtr {
				rv := App("root!", SInt, v)
				facts = append(facts, Implies(Lt(v, IntLit(0)), And(Gt(rv, IntLit(0)), Le(rv, alloc))))
			}
		case *types.Struct:
			if depth > 2 {
				return
			}
			so := vc.W.Sorts.SortOf(t)
			info := vc.W.Sorts.Struct(so)
			if info == nil {
				return
			}
			for i, fi := range info.Fields {
				if fi.Ghost || fi.Type == nil || fi.Nested {
					continue
				}
				walk(fi.Type, vc.W.Sorts.FieldOf(v, i), depth+1)
			}
			_ = u
		}
	}
	walk(t, v, 0)
	if len(facts) == 0 {
		return
	}
	// only for addresses allocated at entry: the values at other addresses are the
	// (arbitrary) initial contents of objects allocated later
	root := App("root!", SInt, r)
	allocd := And(Le(r, alloc), Implies(Lt(r, IntLit(0)), And(Gt(root, IntLit(0)), Le(root, alloc))))
	// optional axiom (second solver round only: it costs quantifier instantiations that a
	// few long proofs cannot afford, and most proofs do not need it)
	vc.Lines = append(vc.Lines, optPrefix+"(assert "+Forall(vars, Implies(allocd, And(facts...)), []Term{v}).S+")")
}

const optPrefix = ";;OPT "

// Fresh declares a new constant.
func (vc *VC) Fresh(hint string, sort Sort) Term {
	vc.n++
	name := fmt.Sprintf("%s!%d", sanitize(hint), vc.n)
	vc.Lines = append(vc.Lines, fmt.Sprintf("(declare-const %s %s)", name, sort))
	return Term{name, sort}
}

// Define names a term (define-fun without arguments) to keep formulas small.
func (vc *VC) Define(hint string, t Term) Term {
	if len(t.S) < 24 || !strings.ContainsAny(t.S, " (") {
		return t
	}
	vc.n++
	name := fmt.Sprintf("%s!%d", sanitize(hint), vc.n)
	vc.Lines = append(vc.Lines, fmt.Sprintf("(define-fun %s () %s %s)", name, t.Sort, t.S))
	if vc.defs == nil {
		vc.defs = map[string]string{}
	}
	vc.defs[name] = t.S
	return Term{name, t.Sort}
}

// SelectThrough reads arr[idx], looking through named definitions: if the array
// is (syntactically) a store at the very same index, the stored value is
// returned. Used so that a value written to a cell and read back keeps its
// identity (closure references).
func (vc *VC) SelectThrough(arr, idx Term) Term {
	t := arr.S
	for i := 0; i < 64; i++ {
		if d, ok := vc.defs[t]; ok {
			t = d
			continue
		}
		if strings.HasPrefix(t, "(store ") {
			parts := splitTopLevel(t[1 : len(t)-1])
			if len(parts) == 4 {
				if parts[2] == idx.S {
					_, vs, _ := arr.Sort.IsArray()
					return Term{parts[3], vs}
				}
			}
		}
		break
	}
	return Sel(arr, idx)
}

// Name introduces a declared constant equal to t (unlike Define, the term is
// hidden behind the constant, so it can be used inside quantifier patterns).
func (vc *VC) Alias(hint string, t Term) Term {
	if !strings.ContainsAny(t.S, " (") {
		return t
	}
	c := vc.Fresh(hint, t.Sort)
	vc.Lines = append(vc.Lines, "(assert (= "+c.S+" "+t.S+"))")
	return c
}

// Assume adds an assumption.
func (vc *VC) Assume(t Term) {
	if t.S == "true" {
		return
	}
	vc.Lines = append(vc.Lines, "(assert "+t.S+")")
}

func (vc *VC) Comment(s string) {
	vc.Lines = append(vc.Lines, "; "+strings.ReplaceAll(s, "\n", " "))
}

// Ordinal returns the next ordinal for the given kind key.
func (vc *VC) Ordinal(key string) int {
	n := vc.ordinals[key]
	vc.ordinals[key] = n + 1
	return n
}

// Oblige records an obligation; a goal that is a conjunction (possibly behind
// non-opaque spec predicates) is split into one obligation per conjunct.
func (vc *VC) Oblige(fn, kind, detail string, pc, goal Term, info string) *Obligation {
	parts := vc.W.splitGoal(goal, 0)
	if len(parts) > 1 && kind != "cover" {
		var last *Obligation
		for i, p := range parts {
			last = vc.oblige1(fn, kind, fmt.Sprintf("%s/%d", detail, i), pc, p, info)
		}
		return last
	}
	return vc.oblige1(fn, kind, detail, pc, goal, info)
}

func (vc *VC) oblige1(fn, kind, detail string, pc, goal Term, info string) *Obligation {
	name := fn + "#" + kind
	if detail != "" {
		name += ":" + detail
	}
	if vc.names == nil {
		vc.names = map[string]int{}
	}
	if k := vc.names[name]; k > 0 {
		vc.names[name] = k + 1
		name = fmt.Sprintf("%s~%d", name, k)
	} else {
		vc.names[name] = 1
	}
	o := &Obligation{Name: name, Kind: kind, Func: fn, Prefix: len(vc.Lines), PC: pc, Goal: goal, Info: info, vc: vc}
	if goal.S == "true" || pc.S == "false" {
		o.Trivial = true
	}
	o.UsesSpec = map[string]bool{}
	for k := range vc.usedSpecs {
		o.UsesSpec[k] = true
	}
	vc.Obls = append(vc.Obls, o)
	return o
}

func (vc *VC) Errorf(f string, a ...any) {
	vc.Errors = append(vc.Errors, fmt.Sprintf(f, a...))
}

// basePrelude is emitted at the top of every query.
const basePrelude = `(set-option :produce-models true)
(set-logic ALL)
(declare-fun slen! (Int) Int)
(declare-fun sat! (Int Int) Int)
(declare-fun sdiff! (Int Int) Int)
(assert (= (slen! 0) 0))
(assert (forall ((s Int)) (! (and (>= (slen! s) 0) (<= (slen! s) 9223372036854775807)) :pattern ((slen! s)))))
(assert (forall ((s Int) (i Int)) (! (and (<= 0 (sat! s i)) (<= (sat! s i) 255)) :pattern ((sat! s i)))))
(declare-fun fncode! (Int) Int)
(declare-fun implements! (Int Int) Bool)
`

// SMT renders the query for an obligation.
func (o *Obligation) SMT() string {
	text := o.smtBody(false)
	return pruneDecls(o.vc.W, text)
}

// SMTOpt is the query with the optional axioms (closed entry heap) included;
// HasOpt tells whether it differs from SMT.
func (o *Obligation) SMTOpt() string {
	return pruneDecls(o.vc.W, o.smtBody(true))
}

func (o *Obligation) HasOpt() bool {
	for _, l := range o.vc.Lines[:o.Prefix] {
		if strings.HasPrefix(l, optPrefix) {
			return true
		}
	}
	return false
}

// SMTCase is the query restricted to one exit of the function (case i of o.Cases).
func (o *Obligation) SMTCase(i int) string {
	text := o.smtBody(true)
	text = strings.Replace(text, "(check-sat)\n", "(assert "+o.Cases[i].S+")\n(check-sat)\n", 1)
	return pruneDecls(o.vc.W, text)
}

func (o *Obligation) smtBody(withOpt bool) string {
	vc := o.vc
	var sb strings.Builder
	sb.WriteString(basePrelude)
	sb.WriteString("; ---- declarations (pruned to those used below) ----\n")
	for _, d := range vc.W.Sorts.Decls() {
		sb.WriteString(d)
		sb.WriteByte('\n')
	}
	sb.WriteString(vc.W.ioEOFDecl())
	sb.WriteString(vc.W.subRefDecls())
	sb.WriteString(vc.W.appDeclLines())
	sb.WriteString("; ---- end declarations ----\n")
	// string literals used directly by the VC
	var ls []string
	for l := range vc.usedLits {
		ls = append(ls, l)
	}
	sort.Strings(ls)
	used := map[string]bool{}
	for k := range o.UsesSpec {
		used[k] = true
	}
	for _, l := range ls {
		used["strlit:"+l] = true
	}
	// the spec prelude handles literal declarations (deduplicated with the specs' own)
	specLines := vc.W.SpecPrelude(withLits(used))
	for _, l := range specLines {
		sb.WriteString(l)
		sb.WriteByte('\n')
	}
	sb.WriteString(vc.implementsFactsCached())
	for _, l := range vc.Lines[:o.Prefix] {
		if strings.HasPrefix(l, optPrefix) {
			if !withOpt {
				continue
			}
			l = l[len(optPrefix):]
		}
		sb.WriteString(l)
		sb.WriteByte('\n')
	}
	sb.WriteString("; obligation " + o.Name + "\n")
	if o.Info != "" {
		sb.WriteString("; " + strings.ReplaceAll(o.Info, "\n", " ") + "\n")
	}
	sb.WriteString("(assert " + o.PC.S + ")\n")
	if o.Negate {
		sb.WriteString("(assert " + o.Goal.S + ")\n")
	} else {
		sb.WriteString("(assert (not " + o.Goal.S + "))\n")
	}
	sb.WriteString("(check-sat)\n")
	return sb.String()
}

func withLits(used map[string]bool) map[string]bool { return used }

// subRefDecls declares the sub-object address functions.
func (w *World) subRefDecls() string {
	var sb strings.Builder
	var names []string
	for n := range w.Sorts.structs {
		names = append(names, n)
	}
	sort.Strings(names)
	k := 0
	for _, n := range names {
		info := w.Sorts.structs[n]
		for _, f := range info.Fields {
			if !f.Nested {
				continue
			}
			k++
			fn := "sub!" + n + "!" + f.Name
			sb.WriteString(fmt.Sprintf("(declare-fun %s (Int) Int)\n", fn))
			sb.WriteString(fmt.Sprintf("(declare-fun %s!inv (Int) Int)\n", fn))
			// injective, never nil, never an ordinary allocated address (those are > 0): sub-objects are negative
			sb.WriteString(fmt.Sprintf("(assert (forall ((r Int)) (! (and (= (%s!inv (%s r)) r) (< (%s r) 0) (= (subtag! (%s r)) %d) (= (root! (%s r)) (root! r))) :pattern ((%s r)))))\n", fn, fn, fn, fn, k, fn, fn))
		}
	}
	// root!(a): the allocated object an address belongs to (a itself for ordinary
	// addresses, the enclosing object for sub-object addresses)
	root := "(declare-fun root! (Int) Int)\n(assert (forall ((r Int)) (! (=> (>= r 0) (= (root! r) r)) :pattern ((root! r)))))\n"
	if k > 0 {
		return root + "(declare-fun subtag! (Int) Int)\n" + sb.String()
	}
	return root
}

// implementsFacts states, for every interface type used in a type assertion,
// which known concrete types implement it.
// implementsFactsCached: computed once per VC under a lock (it walks shared type
// tables of the World; query texts are generated by parallel workers).
func (vc *VC) implementsFactsCached() string {
	implMu.Lock()
	defer implMu.Unlock()
	if !vc.implDone {
		vc.implText = vc.implementsFacts()
		vc.implDone = true
	}
	return vc.implText
}

var implMu sync.Mutex

func (vc *VC) implementsFacts() string {
	var sb strings.Builder
	var names []string
	for n := range vc.ifaceAsserts {
		names = append(names, n)
	}
	sort.Strings(names)
	for _, n := range names {
		it := vc.ifaceAsserts[n]
		iface, ok := it.Underlying().(*types.Interface)
		if !ok {
			continue
		}
		itag := vc.W.Sorts.Tag(it)
		if cw := vc.cwFacts[n]; cw != "" {
			sb.WriteString(cw)
		}
		for key, tag := range vc.W.Sorts.tags {
			ct := vc.W.Sorts.tagTypes[key]
			if ct == nil {
				continue
			}
			if _, isI := ct.Underlying().(*types.Interface); isI {
				continue // never a dynamic type
			}
			sb.WriteString(fmt.Sprintf("(assert (= (implements! %d %d) %v))\n", itag, tag, types.Implements(ct, iface)))
		}
	}
	return sb.String()
}

// splitGoal splits a goal term into conjuncts, looking through applications of
// macro-defined (define-fun) spec predicates.
func (w *World) splitGoal(g Term, depth int) []Term {
	if depth > 8 || g.Sort != SBool {
		return []Term{g}
	}
	s := g.S
	if strings.HasPrefix(s, "(and ") {
		var out []Term
		for _, p := range splitTopLevel(s[1 : len(s)-1])[1:] {
			out = append(out, w.splitGoal(Term{p, SBool}, depth)...)
		}
		return out
	}
	if strings.HasPrefix(s, "(ite ") {
		parts := splitTopLevel(s[1 : len(s)-1])
		if len(parts) == 4 {
			a := w.splitGoal(Term{"(=> " + parts[1] + " " + parts[2] + ")", SBool}, depth+1)
			b := w.splitGoal(Term{"(=> (not " + parts[1] + ") " + parts[3] + ")", SBool}, depth+1)
			return append(a, b...)
		}
	}
	if strings.HasPrefix(s, "(=> ") {
		parts := splitTopLevel(s[1 : len(s)-1])
		if len(parts) == 3 {
			// (=> a (=> b c)) ≡ (=> (and a b) c)
			if strings.HasPrefix(parts[2], "(=> ") {
				inner := splitTopLevel(parts[2][1 : len(parts[2])-1])
				if len(inner) == 3 {
					return w.splitGoal(Term{"(=> (and " + parts[1] + " " + inner[1] + ") " + inner[2] + ")", SBool}, depth+1)
				}
			}
			if strings.HasPrefix(parts[2], "(ite ") {
				inner := splitTopLevel(parts[2][1 : len(parts[2])-1])
				if len(inner) == 4 {
					a := w.splitGoal(Term{"(=> (and " + parts[1] + " " + inner[1] + ") " + inner[2] + ")", SBool}, depth+1)
					b := w.splitGoal(Term{"(=> (and " + parts[1] + " (not " + inner[1] + ")) " + inner[3] + ")", SBool}, depth+1)
					return append(a, b...)
				}
			}
			cons := w.splitGoal(Term{parts[2], SBool}, depth+1)
			if len(cons) > 1 {
				var out []Term
				for _, c := range cons {
					out = append(out, Term{"(=> " + parts[1] + " " + c.S + ")", SBool})
				}
				return out
			}
		}
		return []Term{g}
	}
	if strings.HasPrefix(s, "(sf!") {
		parts := splitTopLevel(s[1 : len(s)-1])
		name := strings.TrimPrefix(parts[0], "sf!")
		si := w.specs[name]
		if si != nil && si.declOnly == "" && si.bodyText != "" && strings.HasPrefix(si.bodyText, "(and ") {
			args := parts[1:]
			if len(args) == len(si.formalNames) {
				body := substSymbols(si.bodyText, si.formalNames, args)
				return w.splitGoal(Term{body, SBool}, depth+1)
			}
		}
	}
	return []Term{g}
}

// substSymbols replaces whole symbols in an s-expression text.
func substSymbols(text string, names, values []string) string {
	m := map[string]string{}
	for i, n := range names {
		m[n] = values[i]
	}
	var sb strings.Builder
	i := 0
	for i < len(text) {
		c := text[i]
		if c == '(' || c == ')' || c == ' ' {
			sb.WriteByte(c)
			i++
			continue
		}
		j := i
		for j < len(text) && text[j] != '(' && text[j] != ')' && text[j] != ' ' {
			j++
		}
		tok := text[i:j]
		if v, ok := m[tok]; ok {
			sb.WriteString(v)
		} else {
			sb.WriteString(tok)
		}
		i = j
	}
	return sb.String()
}

// pruneDecls removes, from the declaration section, every datatype, box/unbox,
// elt, sub-object and callback declaration whose symbols do not occur in the
// rest of the query (transitively through datatype field sorts).  The query
// text then depends only on what the obligation itself mentions.
func pruneDecls(w *World, text string) string {
	const begin = "; ---- declarations (pruned to those used below) ----\n"
	const end = "; ---- end declarations ----\n"
	i := strings.Index(text, begin)
	j := strings.Index(text, end)
	if i < 0 || j < 0 {
		return text
	}
	head, decls, rest := text[:i], text[i+len(begin):j], text[j+len(end):]
	lines := strings.Split(strings.TrimSuffix(decls, "\n"), "\n")
	// group lines into units keyed by the symbols they declare
	type unit struct {
		lines []string
		syms  []string
	}
	var units []*unit
	symOf := func(l string) []string {
		switch {
		case strings.HasPrefix(l, "(declare-datatypes (("):
			name := l[len("(declare-datatypes (("):]
			name = name[:strings.Index(name, " ")]
			return []string{name}
		case strings.HasPrefix(l, "(declare-fun "), strings.HasPrefix(l, "(declare-const "):
			f := strings.Fields(l)
			return []string{f[1]}
		}
		return nil
	}
	prevDecl := false
	for _, l := range lines {
		if l == "" {
			continue
		}
		if syms := symOf(l); syms != nil {
			// function declarations come in runs followed by the assertions that
			// axiomatise them: one unit per run
			isData := strings.HasPrefix(l, "(declare-datatypes")
			if prevDecl && !isData && len(units) > 0 && !strings.HasPrefix(units[len(units)-1].lines[0], "(declare-datatypes") {
				u := units[len(units)-1]
				u.lines = append(u.lines, l)
				u.syms = append(u.syms, syms...)
			} else {
				units = append(units, &unit{lines: []string{l}, syms: syms})
			}
			prevDecl = !isData
		} else if len(units) > 0 {
			u := units[len(units)-1]
			u.lines = append(u.lines, l)
			prevDecl = false
		}
	}
	// merge box!/unbox! pairs and sub!/sub!inv pairs (assertion mentions both)
	used := func(sym string, hay string) bool {
		idx := 0
		for {
			k := strings.Index(hay[idx:], sym)
			if k < 0 {
				return false
			}
			k += idx
			endc := k + len(sym)
			okL := k == 0 || strings.ContainsRune(" ()", rune(hay[k-1]))
			okR := endc >= len(hay) || strings.ContainsRune(" ()", rune(hay[endc]))
			if okL && okR {
				return true
			}
			idx = k + 1
		}
	}
	keep := make([]bool, len(units))
	body := rest
	for k, u := range units {
		if u.syms[0] == "Slice" || u.syms[0] == "Iface" || u.syms[0] == "io.EOF!" || u.syms[0] == "subtag!" {
			keep[k] = true
			body += "\n" + strings.Join(u.lines, "\n")
		}
	}
	changed := true
	for changed {
		changed = false
		for k, u := range units {
			if keep[k] {
				continue
			}
			need := false
			for _, sym := range u.syms {
				if used(sym, body) {
					need = true
				}
				// datatype: constructor / selectors
				if strings.HasPrefix(u.lines[0], "(declare-datatypes") && (used("mk!"+sym, body) || strings.Contains(body, sym+"!")) {
					need = true
				}
			}
			if need {
				keep[k] = true
				changed = true
				body += "\n" + strings.Join(u.lines, "\n")
			}
		}
	}
	var sb strings.Builder
	sb.WriteString(head)
	for k, u := range units {
		if keep[k] || u.syms[0] == "Slice" || u.syms[0] == "Iface" || u.syms[0] == "io.EOF!" || u.syms[0] == "subtag!" {
			for _, l := range u.lines {
				sb.WriteString(l)
				sb.WriteByte('\n')
			}
		}
	}
	sb.WriteString(rest)
	return sb.String()
}

// LemmasUsed lists the lemmas this VC relied on.
func (vc *VC) LemmasUsed() []string {
	var out []string
	for n := range vc.lemmasUsed {
		out = append(out, n)
	}
	sort.Strings(out)
	return out
}
