package vc

import (
	"fmt"
	"go/ast"
	"go/token"
	"go/types"
	"sort"

	"golang.org/x/tools/go/ssa"
)

type locKind int

const (
	locField locKind = iota // Comp[Base]
	locElem                 // Comp[Base][Idx]
	locCell                 // Comp[Base]
	locLocal                // Comp itself holds the value (non-escaping local variable)
)

// Loc is a statically known memory location (the value of a pointer that is
// not a plain reference to a heap struct).
type Loc struct {
	Kind     locKind
	Comp     string
	CompSort Sort
	Base     Term
	Idx      Term  // element index relative to Off
	Off      Term  // offset of the slice inside its backing array (locElem)
	Path     []int // struct field path inside the stored value
	Sort     Sort  // sort of the value at the end of Path
	Root     Sort  // sort of the stored value (before Path)
	Type     types.Type
	Guard    *Guard // guard obligations attached to this location
	GuardRef Term
}

// Val is a symbolic Go value.
type Val struct {
	T   Term
	Loc *Loc
	Tup []Val
}

type State struct {
	PC   Term
	Heap *Heap
}

type Exit struct {
	Panic   bool
	PC      Term
	Heap    *Heap
	Results []Val
	PV      Term
}

type edge struct {
	from *ssa.BasicBlock
	st   State
}

type loopInfo struct {
	header  *ssa.BasicBlock
	ordinal int
	blocks  map[*ssa.BasicBlock]bool
	spec    *LoopSpec
	// recorded at the cut
	names     map[string]nameBinding
	measure   Term
	hasMeas   bool
	preHeap   *Heap // heap just before the havoc (for frame reasoning in invariants: old-at-loop-entry not exposed)
	cutHeap   *Heap
	cutPC     Term
	phiVals   map[*ssa.Phi]Term
	frameEqs  []Term
	stable    map[string]bool // field components assumed unwritten by the loop (validated)
	fullComps []compRef       // components the loop havocs entirely (get an automatic frame invariant)
	rangePhis []*ssa.Phi      // range-index phis (automatic invariant phi >= -1)
	// the map-clearing idiom `for k := range m { delete(m, k) }`: executed as one
	// step (the map becomes empty), no invariant needed
	clearMap  ssa.Value
	clearExit *ssa.BasicBlock
}

// detectClearIdiom recognises `for k := range m { delete(m, k) }`.
func detectClearIdiom(li *loopInfo) {
	h := li.header
	if len(li.blocks) != 2 || len(h.Instrs) != 3 {
		return
	}
	nx, ok := h.Instrs[0].(*ssa.Next)
	if !ok || nx.IsString {
		return
	}
	rg, ok := nx.Iter.(*ssa.Range)
	if !ok {
		return
	}
	mt, ok := rg.X.Type().Underlying().(*types.Map)
	if !ok {
		return
	}
	if b, isB := mt.Key().Underlying().(*types.Basic); isB && b.Info()&(types.IsFloat|types.IsComplex) != 0 {
		return // NaN keys cannot be deleted
	}
	if _, isI := mt.Key().Underlying().(*types.Interface); isI {
		return
	}
	okx, ok := h.Instrs[1].(*ssa.Extract)
	if !ok || okx.Tuple != nx || okx.Index != 0 {
		return
	}
	br, ok := h.Instrs[2].(*ssa.If)
	if !ok || br.Cond != okx {
		return
	}
	body, exit := h.Succs[0], h.Succs[1]
	if !li.blocks[body] || li.blocks[exit] {
		return
	}
	var key *ssa.Extract
	var del *ssa.Call
	for _, ins := range body.Instrs {
		switch x := ins.(type) {
		case *ssa.Extract:
			if x.Tuple != nx || x.Index != 1 || key != nil {
				return
			}
			key = x
		case *ssa.Call:
			bi, isB := x.Call.Value.(*ssa.Builtin)
			if !isB || bi.Name() != "delete" || del != nil {
				return
			}
			del = x
		case *ssa.UnOp, *ssa.FieldAddr, *ssa.DebugRef, *ssa.Jump:
		default:
			return
		}
	}
	if key == nil || del == nil || del.Call.Args[1] != key || !sameMapExpr(del.Call.Args[0], rg.X) {
		return
	}
	li.clearMap = rg.X
	li.clearExit = exit
}

// sameMapExpr: the same SSA value, or loads of the same field of the same base.
func sameMapExpr(a, b ssa.Value) bool {
	if a == b {
		return true
	}
	la, ok1 := a.(*ssa.UnOp)
	lb, ok2 := b.(*ssa.UnOp)
	if !ok1 || !ok2 || la.Op != token.MUL || lb.Op != token.MUL {
		return false
	}
	fa, ok1 := la.X.(*ssa.FieldAddr)
	fb, ok2 := lb.X.(*ssa.FieldAddr)
	if ok1 && ok2 {
		return fa.Field == fb.Field && (fa.X == fb.X || sameMapExpr(fa.X, fb.X))
	}
	return la.X == lb.X
}

type nameBinding struct {
	obj    types.Object
	v      ssa.Value
	isAddr bool
}

// Frame executes one function body.
type Frame struct {
	noRecover    bool // inlined from a non-deferred call: recover() returns nil here
	recoveredVal Term // standalone verification of a deferred recover helper: what recover() returns (spec name `recovered`)
	vc           *VC
	w            *World
	fn           *ssa.Function
	fc           *FuncContract
	label        string
	depth        int
	top          bool
	env          map[ssa.Value]Val
	entryHeap    *Heap
	exits        []Exit
	defers       []*ssa.Defer
	deferPCs     []Term // path condition under which each entry of defers was registered
	loops        map[*ssa.BasicBlock]*loopInfo
	back         map[[2]int]bool
	callStack    []*ssa.Function
	inLoopOf     map[*ssa.BasicBlock][]*loopInfo
	closures     map[string]*closureInfo
	frameMS      *modSet   // targets of the function's modifies clause (top frame only)
	dctx         *deferCtx // set while deferred calls run
}

// deferCtx is the panic state seen by deferred calls.
type deferCtx struct {
	panicking bool
	pv        Term
	recovered bool
}

const maxInlineDepth = 4

func (f *Frame) fail(format string, a ...any) {
	f.vc.Errorf("%s: %s", f.label, fmt.Sprintf(format, a...))
}

// analyseCFG finds back edges and natural loops.
func (f *Frame) analyseCFG() {
	f.loops = map[*ssa.BasicBlock]*loopInfo{}
	f.back = map[[2]int]bool{}
	f.inLoopOf = map[*ssa.BasicBlock][]*loopInfo{}
	for _, b := range f.fn.Blocks {
		for _, s := range b.Succs {
			if s.Dominates(b) {
				f.back[[2]int{b.Index, s.Index}] = true
				li := f.loops[s]
				if li == nil {
					li = &loopInfo{header: s, blocks: map[*ssa.BasicBlock]bool{s: true}}
					f.loops[s] = li
				}
				// natural loop of back edge b→s
				var stack []*ssa.BasicBlock
				if !li.blocks[b] {
					li.blocks[b] = true
					stack = append(stack, b)
				}
				for len(stack) > 0 {
					x := stack[len(stack)-1]
					stack = stack[:len(stack)-1]
					for _, p := range x.Preds {
						if !li.blocks[p] {
							li.blocks[p] = true
							stack = append(stack, p)
						}
					}
				}
			}
		}
	}
	var headers []*ssa.BasicBlock
	for h := range f.loops {
		headers = append(headers, h)
	}
	// ordinal = source order of the loop statement; block index order matches
	// creation order in go/ssa, which follows the source.
	sort.Slice(headers, func(i, j int) bool { return headers[i].Index < headers[j].Index })
	for i, h := range headers {
		li := f.loops[h]
		li.ordinal = i
		if f.fc != nil {
			li.spec = f.fc.Loops[i]
		}
		if li.spec == nil {
			detectClearIdiom(li)
		}
		for b := range li.blocks {
			f.inLoopOf[b] = append(f.inLoopOf[b], li)
		}
	}
}

// rpo returns the blocks in reverse post-order ignoring back edges.
func (f *Frame) rpo() []*ssa.BasicBlock {
	seen := map[*ssa.BasicBlock]bool{}
	var post []*ssa.BasicBlock
	var dfs func(b *ssa.BasicBlock)
	// innermost loop of a block = the smallest natural loop containing it
	innermost := func(b *ssa.BasicBlock) *loopInfo {
		var best *loopInfo
		for _, li := range f.inLoopOf[b] {
			if best == nil || len(li.blocks) < len(best.blocks) {
				best = li
			}
		}
		return best
	}
	dfs = func(b *ssa.BasicBlock) {
		seen[b] = true
		// visit loop-exit successors first so that, in reverse post-order, the whole
		// loop body precedes the code after the loop (keeps VCs of loop obligations
		// free of assumptions about later code)
		succs := append([]*ssa.BasicBlock{}, b.Succs...)
		if li := innermost(b); li != nil {
			sort.SliceStable(succs, func(i, j int) bool {
				return !li.blocks[succs[i]] && li.blocks[succs[j]]
			})
		}
		for _, s := range succs {
			if f.back[[2]int{b.Index, s.Index}] || seen[s] {
				continue
			}
			dfs(s)
		}
		post = append(post, b)
	}
	dfs(f.fn.Blocks[0])
	for i, j := 0, len(post)-1; i < j; i, j = i+1, j-1 {
		post[i], post[j] = post[j], post[i]
	}
	return post
}

// run executes the function from the entry state and fills f.exits.
func (f *Frame) run(entry State) {
	if len(f.fn.Blocks) == 0 {
		f.fail("function has no body")
		return
	}
	f.analyseCFG()
	in := map[*ssa.BasicBlock][]edge{}
	in[f.fn.Blocks[0]] = []edge{{nil, entry}}
	for _, b := range f.rpo() {
		edges := in[b]
		if len(edges) == 0 {
			continue
		}
		if f.fn.Recover != nil && b == f.fn.Recover {
			continue
		}
		st := f.mergeEdges(b, edges)
		if li := f.loops[b]; li != nil && li.clearMap != nil {
			// the map-clearing idiom, as one step
			st = f.clearMapStep(li.clearMap, st)
			f.edgeTo(b, li.clearExit, st, in)
			continue
		}
		if li := f.loops[b]; li != nil {
			st = f.cutLoop(li, st)
		}
		alive := true
		for _, ins := range b.Instrs {
			if _, isPhi := ins.(*ssa.Phi); isPhi {
				continue
			}
			var term bool
			st, term = f.step(ins, st, in)
			if term {
				alive = false
				break
			}
		}
		_ = alive
	}
}

// edgeTo sends a state along pred→succ (or discharges loop obligations on a back edge).
func (f *Frame) edgeTo(from, to *ssa.BasicBlock, st State, in map[*ssa.BasicBlock][]edge) {
	if st.PC.S == "false" {
		return
	}
	if f.back[[2]int{from.Index, to.Index}] {
		f.backEdge(f.loops[to], from, st)
		return
	}
	in[to] = append(in[to], edge{from, st})
}

func predIndex(b, pred *ssa.BasicBlock) int {
	for i, p := range b.Preds {
		if p == pred {
			return i
		}
	}
	return -1
}

// mergeEdges joins the incoming states of b and binds its phis.
func (f *Frame) mergeEdges(b *ssa.BasicBlock, edges []edge) State {
	if len(edges) == 1 {
		e := edges[0]
		for _, ins := range b.Instrs {
			phi, ok := ins.(*ssa.Phi)
			if !ok {
				break
			}
			f.env[phi] = f.val(phi.Edges[predIndex(b, e.from)])
		}
		return e.st
	}
	var pcs []Term
	for i := range edges {
		edges[i].st.PC = f.vc.Define("pc", edges[i].st.PC)
		pcs = append(pcs, edges[i].st.PC)
	}
	pc := f.vc.Define("pc", Or(pcs...))
	// phis
	for _, ins := range b.Instrs {
		phi, ok := ins.(*ssa.Phi)
		if !ok {
			break
		}
		var vals []Val
		for _, e := range edges {
			vals = append(vals, f.val(phi.Edges[predIndex(b, e.from)]))
		}
		f.env[phi] = f.mergeVals(phi.Name(), pcs, vals)
	}
	// heap
	heaps := make([]*Heap, len(edges))
	for i, e := range edges {
		heaps[i] = e.st.Heap
	}
	return State{PC: pc, Heap: f.mergeHeaps(pcs, heaps)}
}

func (f *Frame) mergeHeaps(pcs []Term, heaps []*Heap) *Heap {
	h := heaps[len(heaps)-1]
	res := h
	for _, name := range compNames(heaps...) {
		so := f.vc.compSortOf(name, heaps)
		t := heaps[len(heaps)-1].Comp(name, so)
		same := true
		for i := len(heaps) - 2; i >= 0; i-- {
			ti := heaps[i].Comp(name, so)
			if ti.S != t.S {
				same = false
			}
			t = Ite(pcs[i], ti, t)
		}
		if !same {
			res = res.Set(name, f.vc.Define("h."+name, t))
		}
	}
	// components nobody has mentioned yet: if the paths would resolve them differently
	// (different havoc epochs), the merged heap must keep asking the paths
	differ := false
	for _, hp := range heaps {
		if hp.epochBase != h.epochBase || len(hp.parts) > 0 {
			differ = true
		}
	}
	if differ {
		if res == h {
			res = &Heap{comps: map[string]Term{}, vc: h.vc}
			for k, v := range h.comps {
				res.comps[k] = v
			}
		}
		res.epochBase = ""
		res.parts = append([]*Heap{}, heaps...)
		res.partPCs = append([]Term{}, pcs...)
	}
	return res
}

func (vc *VC) compSortOf(name string, heaps []*Heap) Sort {
	for _, h := range heaps {
		if t, ok := h.comps[name]; ok {
			return t.Sort
		}
	}
	return vc.compSorts[name]
}

func (f *Frame) mergeVals(hint string, pcs []Term, vals []Val) Val {
	last := vals[len(vals)-1]
	if len(last.Tup) > 0 {
		out := Val{}
		for k := range last.Tup {
			var vs []Val
			for _, v := range vals {
				vs = append(vs, v.Tup[k])
			}
			out.Tup = append(out.Tup, f.mergeVals(hint, pcs, vs))
		}
		return out
	}
	allSame := true
	for _, v := range vals {
		if v.Loc != nil || last.Loc != nil {
			if v.Loc != last.Loc {
				f.fail("merge of distinct static pointer locations (%s) is outside the subset", hint)
				f.vc.Outside["merge of interior pointers"] = true
				return last
			}
			continue
		}
		if v.T.S != last.T.S {
			allSame = false
		}
	}
	if allSame {
		return last
	}
	t := last.T
	for i := len(vals) - 2; i >= 0; i-- {
		t = Ite(pcs[i], vals[i].T, t)
	}
	return Val{T: f.vc.Define(f.label0()+hint, t)}
}

func (f *Frame) label0() string {
	if f.depth == 0 {
		return ""
	}
	return fmt.Sprintf("i%d.", f.depth)
}

// ---- values ----

func (f *Frame) val(v ssa.Value) Val {
	switch v := v.(type) {
	case *ssa.Const:
		return f.constVal(v)
	case *ssa.Function:
		id := f.w.FnID(v)
		f.vc.UseFnID(id)
		t := IntLit(int64(id))
		// a function literal without captured variables is a closure with no bindings
		if v.Parent() != nil || f.w.ContractOf(v) != nil {
			if f.closures == nil {
				f.closures = map[string]*closureInfo{}
			}
			if _, ok := f.closures[t.S]; !ok {
				f.closures[t.S] = &closureInfo{fn: v, bindings: map[*ssa.FreeVar]Val{}}
			}
		}
		return Val{T: t}
	case *ssa.Global:
		return Val{T: f.globalRef(v)}
	case *ssa.Builtin:
		f.fail("builtin %s used as value", v.Name())
		return Val{T: IntLit(0)}
	}
	if x, ok := f.env[v]; ok {
		return x
	}
	f.fail("SSA value %s (%T) has no symbolic value", v.Name(), v)
	return Val{T: f.w.Sorts.Zero(f.w.Sorts.SortOf(v.Type()))}
}

func (f *Frame) globalRef(g *ssa.Global) Term {
	name := "glob!" + sanitize(shortPkg(g.Pkg.Pkg.Path())+"."+g.Name())
	if !f.vc.declared[name] {
		f.vc.declared[name] = true
		f.vc.Lines = append(f.vc.Lines, fmt.Sprintf("(declare-const %s Int)", name))
		// globals are allocated before everything else: 0 < g <= initial alloc
		f.vc.Lines = append(f.vc.Lines, fmt.Sprintf("(assert (and (< 0 %s) (<= %s %s)))", name, name, f.vc.initialComp(allocComp, SInt).S))
		f.vc.globals = append(f.vc.globals, name)
		if len(f.vc.globals) > 1 {
			f.vc.Lines = append(f.vc.Lines, "(assert (distinct "+joinStrings(f.vc.globals, " ")+"))")
		}
	}
	f.tableFacts(g, Term{name, SInt})
	return Term{name, SInt}
}

func joinStrings(ss []string, sep string) string {
	out := ""
	for i, s := range ss {
		if i > 0 {
			out += sep
		}
		out += s
	}
	return out
}

func (f *Frame) constVal(c *ssa.Const) Val {
	t := c.Type()
	so := f.w.Sorts.SortOf(t)
	if c.Value == nil {
		return Val{T: f.w.Sorts.Zero(so)}
	}
	switch u := t.Underlying().(type) {
	case *types.Basic:
		switch {
		case u.Info()&types.IsBoolean != 0:
			return Val{T: BoolLit(c.Value.String() == "true")}
		case u.Info()&types.IsInteger != 0:
			return Val{T: Term{smtInt(c.Value.ExactString()), SInt}}
		case u.Info()&types.IsString != 0:
			s := constantString(c)
			return Val{T: f.vc.UseStrLit(s)}
		case u.Info()&types.IsFloat != 0:
			f.vc.Outside["floating-point constant"] = true
			return Val{T: f.vc.Fresh("float", SInt)}
		}
	}
	f.fail("unsupported constant %s of type %s", c.Value, typeName(t))
	return Val{T: f.w.Sorts.Zero(so)}
}

// ---- type facts ----

// typeFacts returns the facts every value of Go type t satisfies.
func (f *Frame) typeFacts(t types.Type, v Term, h *Heap) []Term {
	var out []Term
	switch u := t.Underlying().(type) {
	case *types.Basic:
		if lo, hi, ok := IntRange(t); ok {
			out = append(out, Le(BigLit(lo), v), Le(v, BigLit(hi)))
		}
	case *types.Slice:
		out = append(out, Ge(SLen(v), IntLit(0)), Ge(SCap(v), SLen(v)), Ge(SOff(v), IntLit(0)),
			Le(SCap(v), Term{"9223372036854775807", SInt}),
			Ge(SArr(v), IntLit(0)), Le(SArr(v), h.Comp(allocComp, SInt)),
			Implies(Eq(SArr(v), IntLit(0)), And(Eq(SCap(v), IntLit(0)), Eq(SOff(v), IntLit(0)))))
	case *types.Pointer, *types.Map:
		out = append(out, Le(v, h.Comp(allocComp, SInt)))
		if _, isMap := u.(*types.Map); isMap {
			out = append(out, Ge(v, IntLit(0)))
		} else if pt, ok := u.(*types.Pointer); ok {
			// a pointer to a struct may address an embedded struct (a negative address):
			// the object it lies in is allocated too
			if _, isStruct := pt.Elem().Underlying().(*types.Struct); isStruct {
				root := App("root!", SInt, v)
				out = append(out, Implies(Lt(v, IntLit(0)), And(Gt(root, IntLit(0)), Le(root, h.Comp(allocComp, SInt)))))
			}
		}
	case *types.Struct:
		so := f.w.Sorts.SortOf(t)
		info := f.w.Sorts.Struct(so)
		for i, fi := range info.Fields {
			if fi.Ghost || fi.Type == nil {
				continue
			}
			out = append(out, f.typeFacts(fi.Type, f.w.Sorts.FieldOf(v, i), h)...)
		}
	case *types.Interface:
		out = append(out, Ge(ITag(v), IntLit(0)), Implies(Eq(ITag(v), IntLit(0)), Eq(IVal(v), IntLit(0))))
	}
	return out
}

func (f *Frame) assumeType(t types.Type, v Term, st State) {
	for _, fact := range f.typeFacts(t, v, st.Heap) {
		f.vc.Assume(Implies(st.PC, fact))
	}
}

// ---- names for loop invariants ----

func (f *Frame) namesAt(h *ssa.BasicBlock) map[string]nameBinding {
	names := map[string]nameBinding{}
	for _, ins := range h.Instrs {
		phi, ok := ins.(*ssa.Phi)
		if !ok {
			break
		}
		if phi.Comment != "" {
			if _, dup := names[phi.Comment]; !dup {
				names[phi.Comment] = nameBinding{v: phi}
			}
		}
	}
	for b := h.Idom(); b != nil; b = b.Idom() {
		for i := len(b.Instrs) - 1; i >= 0; i-- {
			switch ins := b.Instrs[i].(type) {
			case *ssa.DebugRef:
				id, ok := ins.Expr.(*ast.Ident)
				if !ok {
					continue
				}
				if _, isVar := ins.Object().(*types.Var); !isVar {
					continue
				}
				if prev, dup := names[id.Name]; !dup {
					names[id.Name] = nameBinding{v: ins.X, isAddr: ins.IsAddr, obj: ins.Object()}
				} else if !prev.isAddr && ins.IsAddr && prev.obj == ins.Object() {
					// the same variable is addressable (it lives in a cell): its current
					// value is the content of the cell, not the value it was declared with
					names[id.Name] = nameBinding{v: ins.X, isAddr: true, obj: ins.Object()}
				}
			case *ssa.Phi:
				if ins.Comment != "" {
					if _, dup := names[ins.Comment]; !dup {
						names[ins.Comment] = nameBinding{v: ins}
					}
				}
			}
		}
	}
	// a variable that lives in a cell (ssa.Alloc with the variable's name and
	// declaration position) is named by that cell: its current value is the
	// cell's content, not the value it was declared with
	for nm, b := range names {
		if b.isAddr || b.obj == nil {
			continue
		}
		if a := f.allocOf(nm, b.obj); a != nil {
			names[nm] = nameBinding{v: a, isAddr: true, obj: b.obj}
		}
	}
	for _, p := range f.fn.Params {
		if _, dup := names[p.Name()]; !dup {
			names[p.Name()] = nameBinding{v: p}
		}
		// entry value of a (possibly reassigned) parameter: <name>0
		if _, dup := names[p.Name()+"0"]; !dup {
			names[p.Name()+"0"] = nameBinding{v: p}
		}
	}
	for _, fv := range f.fn.FreeVars {
		if _, dup := names[fv.Name()]; !dup {
			names[fv.Name()] = nameBinding{v: fv, isAddr: true}
		}
	}
	return names
}

// specEnv builds the spec environment at a program point.
func (f *Frame) specEnv(names map[string]nameBinding, override map[ssa.Value]Val, h *Heap) *SpecEnv {
	env := &SpecEnv{W: f.w, Vars: map[string]SVal{}, Heap: h, Old: f.entryHeap, Scope: f.scope(), Side: f.vc}
	for n, b := range names {
		var v Val
		if ov, ok := override[b.v]; ok {
			v = ov
		} else if x, ok := f.env[b.v]; ok {
			v = x
		} else {
			switch b.v.(type) {
			case *ssa.Const, *ssa.Function, *ssa.Global:
				v = f.val(b.v)
			default:
				continue // not yet defined at this point
			}
		}
		t := b.v.Type()
		if b.isAddr {
			// the SSA value is the address of the variable
			pt, ok := t.Underlying().(*types.Pointer)
			if !ok {
				continue
			}
			if _, isStruct := pt.Elem().Underlying().(*types.Struct); isStruct && v.Loc == nil {
				env.Vars[n] = SVal{T: v.T, Go: pt.Elem(), Ref: true}
				continue
			}
			lv, ok := f.tryLoad(v, pt.Elem(), h)
			if !ok {
				continue
			}
			env.Vars[n] = SVal{T: lv, Go: pt.Elem()}
			continue
		}
		if v.Loc != nil || len(v.Tup) > 0 {
			continue
		}
		env.Vars[n] = SVal{T: v.T, Go: t}
	}
	return env
}

func (f *Frame) scope() string {
	if f.fc != nil && f.fc.ScopePkg != "" {
		return f.fc.ScopePkg
	}
	if f.fn.Pkg != nil {
		return f.fn.Pkg.Pkg.Path()
	}
	if o := f.fn.Origin(); o != nil && o.Pkg != nil {
		return o.Pkg.Pkg.Path()
	}
	return ""
}

// ---- loops ----

func (f *Frame) cutLoop(li *loopInfo, st State) State {
	vc := f.vc
	h := li.header
	li.names = f.namesAt(h)
	vc.Comment(fmt.Sprintf("loop %d of %s (block %d)", li.ordinal, f.label, h.Index))
	// 1. invariant holds on entry
	if li.spec != nil {
		env := f.specEnv(li.names, nil, st.Heap)
		for k, inv := range li.spec.Invariants {
			t, err := env.EvalBool(inv)
			if err != nil {
				f.fail("loop %d invariant: %v", li.ordinal, err)
				continue
			}
			vc.Oblige(f.label, "inv-init", fmt.Sprintf("%d.%d", li.ordinal, k), st.PC, t, inv.Src)
		}
	}
	// 2. havoc what the loop modifies
	li.preHeap = st.Heap
	heap := f.havocLoop(li, st)
	// automatic frame invariant for components the loop havocs entirely
	for _, c := range li.fullComps {
		if t, ok := f.frameFormula(c, st.Heap); ok {
			vc.Oblige(f.label, "inv-init", fmt.Sprintf("%d.frame.%s", li.ordinal, c.name), st.PC, t, "automatic loop frame for "+c.name)
		}
		if t, ok := f.frameFormula(c, heap); ok {
			vc.Assume(Implies(st.PC, t))
		}
	}
	li.phiVals = map[*ssa.Phi]Term{}
	for _, ins := range h.Instrs {
		phi, ok := ins.(*ssa.Phi)
		if !ok {
			break
		}
		entryVal := f.env[phi]
		if entryVal.Loc != nil || len(entryVal.Tup) > 0 {
			f.fail("loop-carried interior pointer or tuple (%s) is outside the subset", phi.Name())
			vc.Outside["loop-carried interior pointer"] = true
			continue
		}
		c := vc.Fresh(f.label0()+phi.Name()+"."+phi.Comment, entryVal.T.Sort)
		f.env[phi] = Val{T: c}
		li.phiVals[phi] = c
		if phi.Comment == "rangeindex" {
			// go/ssa's range-over-slice index starts at -1 and is only incremented
			// (automatic invariant; re-checked on the back edge)
			// (all facts about the loop's variables are guarded by the path condition of
			// reaching the loop: on paths that never get here the bound may be meaningless,
			// and an unguarded `c < bound` would make those paths vacuous)
			vc.Assume(Implies(st.PC, Ge(c, IntLit(-1))))
			li.rangePhis = append(li.rangePhis, phi)
			// ... and stays below the length it is compared with (k+1 < n is the loop test)
			if n := rangeBound(phi); n != nil {
				if nv, ok := f.invariantValue(li, n); ok && nv.Loc == nil {
					vc.Oblige(f.label, "inv-init", fmt.Sprintf("%d.rangebound", li.ordinal), st.PC, Lt(IntLit(-1), nv.T), "automatic: range bound is non-negative")
					vc.Assume(Implies(st.PC, Lt(c, nv.T)))
				}
			}
		}
		for _, fact := range f.typeFacts(phi.Type(), c, heap) {
			vc.Assume(Implies(st.PC, fact))
		}
	}
	nst := State{PC: st.PC, Heap: heap}
	// 3. assume the invariant
	if li.spec != nil {
		env := f.specEnv(li.names, nil, heap)
		for _, inv := range li.spec.Invariants {
			t, err := env.EvalBool(inv)
			if err != nil {
				continue
			}
			vc.Assume(Implies(st.PC, t))
		}
		for _, lc := range li.spec.Lemmas {
			if err := f.w.assumeLemmaInstance(vc, env, lc, st.PC); err != nil {
				f.fail("loop %d lemma %s: %v", li.ordinal, lc.Src, err)
			}
		}
		if li.spec.Decreases != nil {
			v, err := env.Eval(li.spec.Decreases.E)
			if err != nil || v.T.Sort != SInt {
				f.fail("loop %d decreases: %v", li.ordinal, err)
			} else {
				li.measure = vc.Define("measure", v.T)
				li.hasMeas = true
			}
		}
	}
	li.cutHeap = heap
	li.cutPC = st.PC
	return nst
}

func (f *Frame) backEdge(li *loopInfo, from *ssa.BasicBlock, st State) {
	vc := f.vc
	h := li.header
	override := map[ssa.Value]Val{}
	for _, ins := range h.Instrs {
		phi, ok := ins.(*ssa.Phi)
		if !ok {
			break
		}
		override[phi] = f.val(phi.Edges[predIndex(h, from)])
	}
	for _, c := range li.fullComps {
		if t, ok := f.frameFormula(c, st.Heap); ok {
			vc.Oblige(f.label, "inv-keep", fmt.Sprintf("%d.frame.%s", li.ordinal, c.name), st.PC, t, "automatic loop frame for "+c.name)
		}
	}
	for _, phi := range li.rangePhis {
		if v, ok := override[phi]; ok {
			vc.Oblige(f.label, "inv-keep", fmt.Sprintf("%d.rangeindex", li.ordinal), st.PC, Ge(v.T, IntLit(-1)), "automatic: range index >= -1")
		}
	}
	if li.spec == nil {
		return
	}
	env := f.specEnv(li.names, override, st.Heap)
	for k, inv := range li.spec.Invariants {
		t, err := env.EvalBool(inv)
		if err != nil {
			f.fail("loop %d invariant (back edge): %v", li.ordinal, err)
			continue
		}
		vc.Oblige(f.label, "inv-keep", fmt.Sprintf("%d.%d", li.ordinal, k), st.PC, t, inv.Src)
	}
	if li.hasMeas {
		v, err := env.Eval(li.spec.Decreases.E)
		if err == nil && v.T.Sort == SInt {
			vc.Oblige(f.label, "dec", fmt.Sprintf("%d", li.ordinal), st.PC,
				And(Ge(li.measure, IntLit(0)), Lt(v.T, li.measure)), li.spec.Decreases.Src)
		}
	}
}

// rangeBound finds n in the go/ssa range-loop header  k' = k + 1; if k' < n.
func rangeBound(phi *ssa.Phi) ssa.Value {
	b := phi.Block()
	var inc ssa.Value
	for _, ins := range b.Instrs {
		if bo, ok := ins.(*ssa.BinOp); ok {
			if bo.Op == token.ADD && bo.X == phi {
				if c, ok := bo.Y.(*ssa.Const); ok && c.Value != nil && c.Value.String() == "1" {
					inc = bo
				}
			}
			if bo.Op == token.LSS && inc != nil && bo.X == inc {
				if iff, ok := b.Instrs[len(b.Instrs)-1].(*ssa.If); ok && iff.Cond == bo {
					return bo.Y
				}
			}
		}
	}
	return nil
}

// clearMapStep empties the map (no-op on a nil map).
func (f *Frame) clearMapStep(mv ssa.Value, st State) State {
	vc := f.vc
	vc.Trusted["for k := range m { delete(m, k) } empties m (Go spec: entries removed during iteration are not produced; every other entry is visited)"] = true
	m := f.val(mv).T
	mt := mv.Type().Underlying().(*types.Map)
	ks, vs := f.w.Sorts.SortOf(mt.Key()), f.w.Sorts.SortOf(mt.Elem())
	if p, ok := mv.(*ssa.UnOp); ok {
		_ = p
	}
	mdn := mapDomComp(ks, vs)
	md := st.Heap.Comp(mdn, ArraySort(SInt, ArraySort(ks, SBool)))
	ms := st.Heap.Comp(mapSizeComp(ks, vs), ArraySort(SInt, SInt))
	nmd := Ite(Eq(m, IntLit(0)), md, Store(md, m, ConstArray(ArraySort(ks, SBool), False)))
	nms := Ite(Eq(m, IntLit(0)), ms, Store(ms, m, IntLit(0)))
	st.Heap = st.Heap.Set(mdn, vc.Define("h."+mdn, nmd))
	st.Heap = st.Heap.Set(mapSizeComp(ks, vs), vc.Define("h.MS", nms))
	return st
}

// allocOf finds the cell of a named local variable, if it has one.
func (f *Frame) allocOf(name string, obj types.Object) *ssa.Alloc {
	for _, b := range f.fn.Blocks {
		for _, ins := range b.Instrs {
			if a, ok := ins.(*ssa.Alloc); ok && a.Comment == name && a.Pos() == obj.Pos() {
				return a
			}
		}
	}
	return nil
}
