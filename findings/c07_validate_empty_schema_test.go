// place in: notations/jschema
// Finding (C07): Validate on a schema without an example dereferenced the
// missing root node and returned a bare runtime error (nil pointer dereference)
// instead of a library error.
// Found as the undischarged obligation
//   notations/jschema.(*Schema).validate#pre@notations/jschema/internal/validator.NodeValidatorList:0.0
package jschema_test

import (
	"testing"

	jerr "github.com/jsightapi/jsight-schema-go-library/errors"
	"github.com/jsightapi/jsight-schema-go-library/formats/json"
	"github.com/jsightapi/jsight-schema-go-library/notations/jschema"
)

func TestFindingC07ValidateEmptySchema(t *testing.T) {
	for _, text := range []string{"", "   ", "\n"} {
		err := jschema.New("x", text).Validate(json.New("d", "1"))
		if err == nil {
			t.Errorf("%q: accepted", text)
			continue
		}
		if _, ok := err.(jerr.Error); !ok {
			t.Errorf("%q: want a library error, got %T %v", text, err, err)
		}
	}
}
