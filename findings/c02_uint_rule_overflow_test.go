// place in: notations/jschema
// Finding (C02): "minLength/maxLength as bounds on the decoded string length"
// (likewise minItems/maxItems, precision) - Bytes.ParseUint accumulated the
// digits in a uint without an overflow test, so a rule parameter of 2^64 or more
// wrapped silently: {minLength: 18446744073709551616} meant {minLength: 0} and
// admitted every string, {maxLength: 18446744073709551617} meant {maxLength: 1}.
// Found as the undischarged obligation
//   bytes.(Bytes).ParseUint#inv-keep:0.1   (u == decVal(b, rangeindex+1))
// After the fix such a parameter is an "invalid value of constraint" error at Check.
package jschema_test

import (
	"testing"

	"github.com/jsightapi/jsight-schema-go-library/formats/json"
	"github.com/jsightapi/jsight-schema-go-library/notations/jschema"
)

func TestFindingC02UintRuleOverflow(t *testing.T) {
	for _, c := range []struct{ schema, doc string }{
		{`"abc" // {minLength: 18446744073709551616}`, `"abc"`}, // 3 < 2^64: must not be admitted
		{`"a" // {maxLength: 18446744073709551617}`, `"abcdef"`}, // would be admitted by the real bound; wrapped bound 1 rejects
	} {
		s := jschema.New("s", c.schema)
		cerr := s.Check()
		if cerr != nil {
			continue // rejected at Check: the rule set is not one "that Check accepts"
		}
		verr := s.Validate(json.New("d", c.doc))
		if c.doc == `"abc"` && verr == nil {
			t.Errorf("%s admits %s although its length is below the bound", c.schema, c.doc)
		}
		if c.doc == `"abcdef"` && verr != nil {
			t.Errorf("%s rejects %s although its length is below the bound: %v", c.schema, c.doc, verr)
		}
	}
}
