// place in: notations/jschema
// Finding (C11): Example() returned buf.Bytes() of a pooled bytes.Buffer that a
// deferred Put had already reset and handed back to the pool, so the bytes
// given to the caller were overwritten by the next Example() call on ANY schema.
// Found as the undischarged obligations
//   notations/jschema.(*exampleBuilder).buildExampleForObjectNode#post:0
//   notations/jschema.(*exampleBuilder).buildExampleForArrayNode#post:0
package jschema_test

import (
	"testing"

	"github.com/jsightapi/jsight-schema-go-library/notations/jschema"
)

func TestFindingC11ExampleBufferReuse(t *testing.T) {
	s1 := jschema.New("a", `{"first": 1, "second": [1, 2, 3]}`)
	s2 := jschema.New("b", `{"x": "completely different text", "y": [true]}`)
	b1, err := s1.Example()
	if err != nil {
		t.Fatal(err)
	}
	before := string(b1)
	if _, err := s2.Example(); err != nil {
		t.Fatal(err)
	}
	if string(b1) != before {
		t.Errorf("bytes returned by Example() changed after a later call:\n was: %s\n now: %s", before, string(b1))
	}
}
