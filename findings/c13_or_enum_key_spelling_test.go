// place in: notations/jschema
// Finding (C13): "quoted versus bare rule names ... leaves Check's verdict unchanged" -
// inside an `or` rule-set the loader recognised the `enum` key by comparing the RAW
// key text with "enum", while every other site (ruleLoader.ruleValue,
// NewConstraintFromRule) first drops blanks and one pair of quotes.  So
//   1 // {or: [{enum: [1, 2]}, {type: "string"}]}      was accepted, but
//   1 // {or: [{"enum": [1, 2]}, {type: "string"}]}    failed: "Literal value expected"
// (and so did `{ enum : [1, 2]}`, the key lexeme includes the blanks before the colon).
// Found as the undischarged obligations
//   notations/jschema/internal/loader.(*orRuleSetLoader).keyOrObjectEnd#post:1 / #post:2
package jschema_test

import (
	"testing"

	"github.com/jsightapi/jsight-schema-go-library/formats/json"
	"github.com/jsightapi/jsight-schema-go-library/notations/jschema"
)

func TestFindingC13OrEnumKeySpelling(t *testing.T) {
	for _, text := range []string{
		`1 // {or: [{enum: [1, 2]}, {type: "string"}]}`,
		`1 // {or: [{"enum": [1, 2]}, {type: "string"}]}`,
		`1 // {or: [{ enum : [1, 2]}, {type: "string"}]}`,
		`1 // {or: [{ "enum" : [1, 2]}, {type: "string"}]}`,
	} {
		s := jschema.New("s", text)
		if err := s.Check(); err != nil {
			t.Errorf("%s: Check: %v", text, err)
			continue
		}
		if err := s.Validate(json.New("d", `2`)); err != nil {
			t.Errorf("%s: 2 rejected: %v", text, err)
		}
		if err := s.Validate(json.New("d", `3`)); err == nil {
			t.Errorf("%s: 3 accepted", text)
		}
	}
}
