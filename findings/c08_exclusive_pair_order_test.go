// place in: notations/jschema
// Finding (C08): the min/max pair check ran BEFORE the exclusive flags were
// folded into the bounds, so "strictly when either is exclusive" was never
// enforced: {min: 5, max: 5, exclusiveMinimum: true} admits no number, yet Check
// accepted it inside an or rule set (where the example is matched by another branch).
// Found as the undischarged obligation
//   loader.(schemaCompiler).compileNode#pre@loader.(schemaCompiler).checkPairConstraints:0.1
package jschema_test

import (
	"testing"

	"github.com/jsightapi/jsight-schema-go-library/notations/jschema"
)

func TestFindingC08ExclusivePairOrder(t *testing.T) {
	for _, text := range []string{
		`"a" // {or: [{type: "integer", min: 5, max: 5, exclusiveMinimum: true}, {type: "string"}]}`,
		`"a" // {or: [{type: "integer", min: 5, max: 5, exclusiveMaximum: true}, {type: "string"}]}`,
	} {
		s := jschema.New("finding", text)
		if err := s.Check(); err == nil {
			t.Errorf("Check accepted %s: min == max with an exclusive bound admits no value", text)
		}
	}
	// the non-exclusive case stays legal
	s := jschema.New("ok", `"a" // {or: [{type: "integer", min: 5, max: 5}, {type: "string"}]}`)
	if err := s.Check(); err != nil {
		t.Errorf("unexpected: %v", err)
	}
}
