// place in: notations/jschema
// Finding (C18): "A schema using {enum: @E} ... validates exactly like the same schema
// with the rule's value list written inline (comments ignored) ... for all enum value
// lists (with inline and multi-line comments, any layout)".  A note BEFORE the first
// item is fine in an enum rule, but the inline form indexed the (still empty) item list
// with lastIdx 0: Check failed with "runtime error: index out of range [0] with length 0".
// Found as the undischarged obligations
//   notations/jschema/internal/loader.(*enumValueLoader).commentEnd#pre@notations/jschema/internal/schema/constraint.(*Enum).SetComment:0.0
package jschema_test

import (
	"testing"

	"github.com/jsightapi/jsight-schema-go-library/formats/json"
	"github.com/jsightapi/jsight-schema-go-library/notations/jschema"
	"github.com/jsightapi/jsight-schema-go-library/rules/enum"
)

func TestFindingC18EnumNoteBeforeFirstItem(t *testing.T) {
	for _, list := range []string{
		"[ // first\n 1, 2]",
		"[\n // first\n 1, 2]",
		"[\n 1, // one\n 2 // two\n]",
	} {
		viaRule := jschema.New("s", "1 // {enum: @E}")
		if err := viaRule.AddRule("@E", enum.New("E", list)); err != nil {
			t.Fatal(err)
		}
		inline := jschema.New("s", "1 /* {enum: "+list+"} */")
		if (viaRule.Check() == nil) != (inline.Check() == nil) {
			t.Errorf("%q: via rule Check=%v, inline Check=%v", list, viaRule.Check(), inline.Check())
			continue
		}
		for _, doc := range []string{"1", "2", "3", `"1"`} {
			a := viaRule.Validate(json.New("d", doc))
			b := inline.Validate(json.New("d", doc))
			if (a == nil) != (b == nil) {
				t.Errorf("%q, document %s: via rule %v, inline %v", list, doc, a, b)
			}
		}
	}
}
