// place in: notations/jschema
// Finding (C07): an or-shortcut whose text ends after a '|' ("@a |") was split
// into an empty alternative; TypesList.AddNameWithASTNode read name[0] of the
// empty name and Check() returned a bare runtime.boundsError.
// Found as the undischarged obligation
//   notations/jschema/internal/loader.addORShortcut#pre@...constraint.(*TypesList).AddName:0.0
package jschema_test

import (
	"testing"

	jerr "github.com/jsightapi/jsight-schema-go-library/errors"
	"github.com/jsightapi/jsight-schema-go-library/notations/jschema"
)

func TestFindingC07OrShortcutEmptyAlternative(t *testing.T) {
	for _, text := range []string{"@a |", "@a | ", "@a | @b |"} {
		func() {
			defer func() {
				if r := recover(); r != nil {
					t.Errorf("%q: panic %v", text, r)
				}
			}()
			err := jschema.New("x", text).Check()
			if err == nil {
				t.Errorf("%q: accepted", text)
				return
			}
			if _, ok := err.(jerr.Error); !ok {
				t.Errorf("%q: want a positioned library error, got %T %v", text, err, err)
			}
		}()
	}
}
