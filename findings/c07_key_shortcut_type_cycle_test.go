// place in: notations/jschema
// Finding (C07 "no public method ... fails to terminate", C09 "on every accepted graph
// Check ... terminate"): the kind of a key shortcut's type was computed by following
// or-lists of type references without remembering what is being examined.  With
//   @a = @a | @b,  @b = "x"     (a legal graph: the cycle passes through an or-alternative)
// Check of `{@a: 1}` recursed until the goroutine stack was exhausted - a FATAL error
// ("stack overflow") that no recover() can stop.  Found while putting
// checker.actualRootType under contract: no termination measure exists for it
// (obligation checker.actualRootTypeOf#decreases@... of the repaired function).
// NOTE: on the unrepaired code this test kills the test binary.
package jschema_test

import (
	"testing"
	"time"

	"github.com/jsightapi/jsight-schema-go-library/formats/json"
	"github.com/jsightapi/jsight-schema-go-library/notations/jschema"
)

func TestFindingC07KeyShortcutTypeCycle(t *testing.T) {
	for _, tc := range []struct {
		a, b string
		ok   bool
	}{
		{`@a | @b`, `"x"`, true},        // every terminating alternative is a string
		{`@b | @a`, `@a | @c`, true},    // mutual references, @c = "y"
		{`@a | @b`, `12`, false},        // the only terminating alternative is a number: not a key
	} {
		done := make(chan error, 1)
		var s *jschema.Schema
		go func() {
			s = jschema.New("s", `{@a: 1}`)
			_ = s.AddType("@a", jschema.New("a", tc.a))
			_ = s.AddType("@b", jschema.New("b", tc.b))
			_ = s.AddType("@c", jschema.New("c", `"y"`))
			done <- s.Check()
		}()
		select {
		case err := <-done:
			if (err == nil) != tc.ok {
				t.Errorf("@a = %s, @b = %s: Check() = %v, want ok=%v", tc.a, tc.b, err, tc.ok)
			}
			if err == nil {
				if verr := s.Validate(json.New("d", `{"x": 1}`)); verr != nil && tc.b == `"x"` {
					t.Logf("validate: %v", verr)
				}
			}
		case <-time.After(10 * time.Second):
			t.Fatalf("@a = %s, @b = %s: Check() does not terminate", tc.a, tc.b)
		}
	}
}
