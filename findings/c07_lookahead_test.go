// place in: notations/jschema
// Finding (C07): three scanner look-ahead sites read data[index] without a
// bounds test; when the byte being processed is the LAST byte of the input the
// read is out of range and the public method returns a bare runtime.Error
// (no code, no position) instead of a library error.
// Found as the undischarged obligations
//   notations/jschema/internal/scanner.stateAnyCommentStart#bounds:0
//   notations/jschema/internal/scanner.stateMultiLineAnnotationText#bounds:0
//   rules/enum.(*scanner).stateMultiLineAnnotationText#bounds:0
package jschema_test

import (
	"testing"

	jerr "github.com/jsightapi/jsight-schema-go-library/errors"
	"github.com/jsightapi/jsight-schema-go-library/notations/jschema"
	"github.com/jsightapi/jsight-schema-go-library/rules/enum"
)

func isLibraryError(err error) bool {
	_, ok := err.(jerr.Error)
	return ok
}

func TestFindingC07Lookahead(t *testing.T) {
	for _, text := range []string{"1 ##", "{} ##", "1 /* note *"} {
		func() {
			defer func() {
				if r := recover(); r != nil {
					t.Errorf("schema %q: panic %v", text, r)
				}
			}()
			err := jschema.New("x", text).Check()
			if err == nil || !isLibraryError(err) {
				t.Errorf("schema %q: want a library error, got %T %v", text, err, err)
			}
		}()
	}
	for _, text := range []string{"[1] /* note *"} {
		func() {
			defer func() {
				if r := recover(); r != nil {
					t.Errorf("enum %q: panic %v", text, r)
				}
			}()
			err := enum.New("e", text).Check()
			if err != nil && !isLibraryError(err) {
				t.Errorf("enum %q: want a library error or nil, got %T %v", text, err, err)
			}
		}()
	}
}
