// place in: internal/json
// KNOWN FINDING (C10/C07, not repaired): the exponent is folded into the two
// length counters with machine arithmetic and then used as a slice capacity:
// NewNumber("1e9223372036854775807") panics with "makeslice: cap out of range"
// (and an exponent of a few billions makes it allocate that many zero bytes).
// Undischarged obligation:
//   internal/json.(*scanner).Scan#pre@internal/json.(*scanner).getNatural:0.0
// Not repaired: any bound on the exponent changes the accepted language
// ("numerals of any length, with or without exponent"); at API level the panic
// is converted into a positioned error by the validator's recover handlers.
package json

import "testing"

func TestKnownFindingC10ExponentOverflow(t *testing.T) {
	defer func() {
		if r := recover(); r == nil {
			t.Log("NewNumber no longer panics on an exponent near MaxInt: the known finding can be retired")
		} else {
			t.Logf("known finding still present: %v", r)
		}
	}()
	_, _ = NewNumber([]byte("1e9223372036854775807"))
}
