// place in: notations/jschema
// Finding (C17/C07): Schema.AddType registered an added type with the ROOT
// schema's file, so an error found inside the type was positioned in the type's
// text but rendered against the root text: Error() indexed past the end of the
// root content and panicked.
// Found as the undischarged obligation
//   notations/jschema.(*Schema).AddType#pre@notations/jschema/internal/schema.(*Schema).AddNamedType:1.1
package jschema_test

import (
	"strings"
	"testing"

	"github.com/jsightapi/jsight-schema-go-library/notations/jschema"
)

func TestFindingC17AddedTypeError(t *testing.T) {
	defer func() {
		if r := recover(); r != nil {
			t.Errorf("Error() panicked: %v", r)
		}
	}()
	s := jschema.New("root", "@t")
	typ := jschema.New("@t", "{\n  \"aaaaaaaaaaaaaaaaaaaaaaaaaaaaaaaaaaaaaaaaaaaaaaaaa\": 1 // {min: 5}\n}")
	if err := s.AddType("@t", typ); err != nil {
		t.Fatal(err)
	}
	err := s.Check()
	if err == nil {
		t.Fatal("expected the example 1 to violate min: 5")
	}
	text := err.Error()
	if !strings.Contains(text, "aaaaaaaa") {
		t.Errorf("the error is not rendered against the text of the type it was found in:\n%s", text)
	}
}
