// place in: notations/jschema
// Finding (C02): "A null admitted by nullable:true is accepted whatever other
// rules are present" - ValidateLiteralValue skipped only the enum rule for a
// null value; every other rule (min, maxLength, regex, ...) was still applied to
// the text `null` and rejected it.
// Found as the undischarged obligation
//   notations/jschema/internal/validator.ValidateLiteralValue#panicpost:0
package jschema_test

import (
	"testing"

	"github.com/jsightapi/jsight-schema-go-library/formats/json"
	"github.com/jsightapi/jsight-schema-go-library/notations/jschema"
)

func TestFindingC02NullableNull(t *testing.T) {
	for _, text := range []string{
		`1 // {min: 1, nullable: true}`,
		`"abc" // {minLength: 2, nullable: true}`,
		`"abc" // {regex: "^a", nullable: true}`,
		`1.5 // {precision: 1, nullable: true}`,
	} {
		s := jschema.New("s", text)
		if err := s.Check(); err != nil {
			t.Fatalf("%s: unexpected Check error: %v", text, err)
		}
		if err := s.Validate(json.New("d", `null`)); err != nil {
			t.Errorf("%s: null rejected although nullable is true: %v", text, err)
		}
	}
	// without nullable, null stays rejected
	s := jschema.New("s", `1 // {min: 1}`)
	if err := s.Validate(json.New("d", `null`)); err == nil {
		t.Errorf("null accepted without nullable")
	}
}
