// place in: notations/jschema
// Finding (C15): the object / array example builders wrote the separating comma
// AFTER an item when "i+1 != length", i.e. decided by the child's index and not
// by what is emitted; when a later child is omitted (recursion cut-off) the text
// ends with ",}" or ",]" - ill-formed JSON.
// Found as the undischarged obligations
//   notations/jschema.(*exampleBuilder).buildExampleForObjectNode#inv-keep:0.0/1
//   notations/jschema.(*exampleBuilder).buildExampleForArrayNode#inv-keep:0.0/1
package jschema_test

import (
	"encoding/json"
	"testing"

	"github.com/jsightapi/jsight-schema-go-library/notations/jschema"
)

func TestFindingC15DanglingComma(t *testing.T) {
	s := jschema.New("root", `@node`)
	typ := jschema.New("@node", "{\n  \"id\": 1,\n  \"next\": @node // {optional: true}\n}")
	if err := s.AddType("@node", typ); err != nil {
		t.Fatal(err)
	}
	if err := typ.AddType("@node", typ); err != nil {
		t.Fatal(err)
	}
	if err := s.Check(); err != nil {
		t.Fatal(err)
	}
	b, err := s.Example()
	if err != nil {
		t.Fatal(err)
	}
	if !json.Valid(b) {
		t.Errorf("Example() is not well-formed JSON: %s", b)
	}
}
