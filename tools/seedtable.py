#!/usr/bin/env python3
"""Regenerate the seeded-changes table between the markers in DESIGN.md from seeded/*/meta.json."""
import json, os, re
rows = []
for sd in sorted(os.listdir('/verif/seeded')):
    mp = f'/verif/seeded/{sd}/meta.json'
    if not os.path.exists(mp):
        continue
    m = json.load(open(mp))
    patch = open(f'/verif/seeded/{sd}/patch.diff').read()
    files = sorted(set(re.findall(r'^\+\+\+ b/(\S+)', patch, re.M)))
    det = m.get('detected_by', [])
    obl = ''
    for p in det:
        fo = m.get('checks_run', {}).get(p, {}).get('failed_obligations', [])
        if fo:
            obl = fo[0].split(':')[0].replace('notations/jschema/internal/', '').replace('github.com/jsightapi/jsight-schema-go-library/', '')
            break
    what = (m.get('summary') or m.get('needs_to_manifest', '')).strip().split('\n')[0][:110].replace('|', '/')
    caught = ', '.join(det) if det else ('n/a (no longer applies: superseded by a fix)' if m.get('superseded_by_fix') else '**missed**')
    rows.append(f"| {sd} | {', '.join(f.split('/')[-1] for f in files)} | {caught} | {('`' + obl[:90] + '`') if obl else ''} |")
table = "| seed | file(s) changed | caught by | first failed obligation |\n|---|---|---|---|\n" + "\n".join(rows)
p = '/verif/DESIGN.md'
s = open(p).read()
a, b = '<!-- SEEDTABLE:BEGIN -->', '<!-- SEEDTABLE:END -->'
if a in s:
    s = s[:s.index(a) + len(a)] + "\n" + table + "\n" + s[s.index(b):]
    open(p, 'w').write(s)
n = len(rows); miss = sum('**missed**' in r for r in rows); na = sum('n/a (' in r for r in rows)
print(f'{n} seeds, {n - miss - na} caught, {miss} missed, {na} not applicable any more')
