#!/usr/bin/env python3
"""Instantiate the ordered-map contract template for the three generated map
types (the library generates the code from one template too).  Writes
  /verif/spec/20_orderedmap_gen.gvs                       (predicates)
  /repo/zz_verif_orderedmap.go                            (ASTNodes, RuleASTNodes)
  /repo/notations/jschema/internal/schema/zz_verif_orderedmap.go  (Constraints)
"""
import sys

SPEC = '''
// ---- {M} ----
package {PKG}

// representation invariant: keys pairwise distinct, every listed key is in the
// map, every key of the map is listed, and the map size equals the list length
predicate wfDistinct{M}(m *{M})
  = forall i, j :: 0 <= i && i < j && j < len(m.order) ==> m.order[i] != m.order[j]
predicate wfListed{M}(m *{M})
  = forall i :: 0 <= i && i < len(m.order) ==> dom(m.data, m.order[i])
predicate wfComplete{M}(m *{M})
  = forall k {K} :: dom(m.data, k) ==> (exists i :: 0 <= i && i < len(m.order) && m.order[i] == k)
predicate wf{M}(m *{M})
  = len(m.data) == len(m.order) && wfDistinct{M}(m) && wfListed{M}(m) && wfComplete{M}(m)
'''

CONTRACT = '''
//@ guard {M}.data
//@   read self.mx.held >= 1
//@   write self.mx.held == 2
//@ guard {M}.order
//@   read self.mx.held >= 1
//@   write self.mx.held == 2

//@ func (*{M}).has(k)
//@   props C19
//@   requires m != nil && m.mx.held >= 1
//@   nopanic
//@   ensures result == dom(m.data, k)

//@ func (*{M}).Has(k)
//@   props C19
//@   requires m != nil && m.mx.held == 0
//@   nopanic
//@   modifies m.mx.held
//@   ensures m.mx.held == 0
//@   ensures result == dom(m.data, k)

//@ func (*{M}).Len()
//@   props C19
//@   requires m != nil && m.mx.held == 0 && wf{M}(m)
//@   nopanic
//@   modifies m.mx.held
//@   ensures m.mx.held == 0
//@   ensures result == len(m.order)

//@ func (*{M}).GetValue(k)
//@   props C19
//@   requires m != nil && m.mx.held == 0
//@   nopanic
//@   modifies m.mx.held
//@   ensures m.mx.held == 0
//@   ensures result == m.data[k]

//@ func (*{M}).Get(k)
//@   props C19
//@   requires m != nil && m.mx.held == 0
//@   nopanic
//@   modifies m.mx.held
//@   ensures m.mx.held == 0
//@   ensures result0 == m.data[k] && result1 == dom(m.data, k)

//@ func (*{M}).Set(k, v)
//@   props C19
//@   requires m != nil && m.mx.held == 0 && wf{M}(m)
//@   nopanic
//@   modifies m.mx.held, m.data, m.data[*], m.order, m.order[*]
//@   ensures m.mx.held == 0 && wf{M}(m)
//@   ensures old(dom(m.data, k)) ==> len(m.order) == old(len(m.order))
//@   ensures !old(dom(m.data, k)) ==> len(m.order) == old(len(m.order)) + 1 && m.order[len(m.order)-1] == k
//@   ensures forall i :: 0 <= i && i < old(len(m.order)) ==> m.order[i] == old(m.order[i])
//@   ensures dom(m.data, k) && m.data[k] == v
//@   ensures forall q {K} :: q != k ==> dom(m.data, q) == old(dom(m.data, q)) && m.data[q] == old(m.data[q])

//@ func (*{M}).Update(k, fn)
//@   props C19
//@   requires m != nil && m.mx.held == 0 && wf{M}(m)
//@   maypanic
//@   modifies m.mx.held, m.data[*]
//@   ensures (normal || panics) ==> m.mx.held == 0 && wf{M}(m)
//@   ensures panics <==> (old(dom(m.data, k)) && apppanics(fn, old(m.data[k])))
//@   ensures normal && old(dom(m.data, k)) ==> m.data[k] == app(fn, old(m.data[k]))
//@   ensures (normal || panics) ==> (forall q {K} :: dom(m.data, q) == old(dom(m.data, q)))
//@   ensures (normal || panics) ==> (forall q {K} :: (q != k || panics || !old(dom(m.data, k))) ==> m.data[q] == old(m.data[q]))

//@ func (*{M}).delete(k)
//@   props C19
//@   requires m != nil && m.mx.held == 2 && wf{M}(m)
//@   nopanic
//@   modifies m.data[*], m.order, m.order[*]
//@   ensures wf{M}(m)
//@   ensures !old(dom(m.data, k)) ==> len(m.order) == old(len(m.order)) && (forall i :: 0 <= i && i < len(m.order) ==> m.order[i] == old(m.order[i]))
//@   ensures old(dom(m.data, k)) ==> (exists p :: 0 <= p && p < old(len(m.order)) && old(m.order[p]) == k && len(m.order) == old(len(m.order)) - 1 && (forall i :: 0 <= i && i < p ==> m.order[i] == old(m.order[i])) && (forall i :: p <= i && i < len(m.order) ==> m.order[i] == old(m.order[i+1])))
//@   ensures !dom(m.data, k)
//@   ensures forall q {K} :: q != k ==> dom(m.data, q) == old(dom(m.data, q)) && m.data[q] == old(m.data[q])
//@   ensures m.order.$arr == old(m.order.$arr) && m.order.$off == old(m.order.$off) && m.data == old(m.data)
//@   loop 0 invariant -1 <= rangeindex && rangeindex < len(m.order) && m.order == old(m.order)
//@   loop 0 invariant forall j :: 0 <= j && j <= rangeindex ==> m.order[j] != k
//@   loop 0 decreases len(m.order) - rangeindex

//@ func (*{M}).Delete(k)
//@   props C19
//@   requires m != nil && m.mx.held == 0 && wf{M}(m)
//@   nopanic
//@   modifies m.mx.held, m.data[*], m.order, m.order[*]
//@   ensures m.mx.held == 0 && wf{M}(m)
//@   ensures !old(dom(m.data, k)) ==> len(m.order) == old(len(m.order)) && (forall i :: 0 <= i && i < len(m.order) ==> m.order[i] == old(m.order[i]))
//@   ensures old(dom(m.data, k)) ==> (exists p :: 0 <= p && p < old(len(m.order)) && old(m.order[p]) == k && len(m.order) == old(len(m.order)) - 1 && (forall i :: 0 <= i && i < p ==> m.order[i] == old(m.order[i])) && (forall i :: p <= i && i < len(m.order) ==> m.order[i] == old(m.order[i+1])))
//@   ensures !dom(m.data, k)
//@   ensures forall q {K} :: q != k ==> dom(m.data, q) == old(dom(m.data, q)) && m.data[q] == old(m.data[q])
'''

CONTRACT += '''
//@ func (*{M}).Filter(fn)
//@   props C19
//@   requires m != nil && m.mx.held == 0 && wf{M}(m) && allocated(m.order)
//@   maypanic
//@   modifies m.mx.held, m.data[*], m.order, m.order[*]
//@   ensures (normal || panics) ==> m.mx.held == 0 && wf{M}(m)
//@   ensures normal ==> (forall q {K} :: dom(m.data, q) <==> (old(dom(m.data, q)) && app(fn, q, old(m.data[q]))))
//@   ensures normal ==> (forall q {K} :: dom(m.data, q) ==> m.data[q] == old(m.data[q]))
//@   ensures normal ==> (forall a, b :: 0 <= a && a < b && b < len(m.order) ==> (exists a2, b2 :: 0 <= a2 && a2 < b2 && b2 < old(len(m.order)) && old(m.order[a2]) == m.order[a] && old(m.order[b2]) == m.order[b]))
//@   ensures panics ==> (exists p :: 0 <= p && p < old(len(m.order)) && apppanics(fn, old(m.order[p]), old(m.data[m.order[p]])) && pv == apppv(fn, old(m.order[p]), old(m.data[m.order[p]])))
//@   ensures panics ==> len(m.order) == old(len(m.order)) && (forall i :: 0 <= i && i < len(m.order) ==> m.order[i] == old(m.order[i])) && (forall q {K} :: dom(m.data, q) == old(dom(m.data, q)) && m.data[q] == old(m.data[q]))
//@   loop 0 invariant -1 <= rangeindex && rangeindex < len(m.order) && m.mx.held == 2 && wf{M}(m)
//@   loop 0 invariant m.order == old(m.order) && m.order.$arr <= old(alloc) && (forall i :: 0 <= i && i < len(m.order) ==> m.order[i] == old(m.order[i]))
//@   loop 0 invariant (len(drop) == 0 && cap(drop) == 0) || drop.$arr > old(alloc)
//@   loop 0 invariant forall j :: 0 <= j && j < len(drop) ==> (exists i :: 0 <= i && i <= rangeindex && drop[j] == m.order[i] && !app(fn, m.order[i], m.data[m.order[i]]))
//@   loop 0 invariant forall i :: 0 <= i && i <= rangeindex && !app(fn, m.order[i], m.data[m.order[i]]) ==> (exists j :: 0 <= j && j < len(drop) && drop[j] == m.order[i])
//@   loop 0 invariant forall i :: 0 <= i && i <= rangeindex ==> !apppanics(fn, m.order[i], m.data[m.order[i]])
//@   loop 0 decreases len(m.order) - rangeindex
//@   loop 1 invariant -1 <= rangeindex && rangeindex < len(drop) && m.mx.held == 2 && wf{M}(m)
//@   loop 1 invariant m.order.$arr == old(m.order.$arr) && ((len(drop) == 0 && cap(drop) == 0) || drop.$arr > old(alloc))
//@   loop 1 invariant forall j :: 0 <= j && j < len(drop) ==> (exists i :: 0 <= i && i < old(len(m.order)) && drop[j] == old(m.order[i]) && (let key = drop[j] in !app(fn, key, old(m.data[key]))))
//@   loop 1 invariant forall i :: 0 <= i && i < old(len(m.order)) && !app(fn, old(m.order[i]), old(m.data[m.order[i]])) ==> (exists j :: 0 <= j && j < len(drop) && drop[j] == old(m.order[i]))
//@   loop 1 invariant forall q {K} :: dom(m.data, q) ==> old(dom(m.data, q))
//@   loop 1 invariant forall j :: 0 <= j && j <= rangeindex ==> !dom(m.data, drop[j])
//@   loop 1 invariant forall q {K} :: old(dom(m.data, q)) && !dom(m.data, q) ==> (exists j :: 0 <= j && j <= rangeindex && drop[j] == q)
//@   loop 1 invariant forall q {K} :: dom(m.data, q) ==> m.data[q] == old(m.data[q])
//@   loop 1 invariant forall a, b :: 0 <= a && a < b && b < len(m.order) ==> (exists a2, b2 :: 0 <= a2 && a2 < b2 && b2 < old(len(m.order)) && old(m.order[a2]) == m.order[a] && old(m.order[b2]) == m.order[b])
//@   loop 1 decreases len(drop) - rangeindex

//@ func (*{M}).Find(fn)
//@   props C19
//@   requires m != nil && m.mx.held == 0 && wf{M}(m)
//@   maypanic
//@   modifies m.mx.held
//@   ensures (normal || panics) ==> m.mx.held == 0
//@   ensures normal && result1 ==> (exists p :: 0 <= p && p < len(m.order) && result0.Key == m.order[p] && result0.Value == m.data[m.order[p]] && app(fn, m.order[p], m.data[m.order[p]]) && (forall i :: 0 <= i && i < p ==> !app(fn, m.order[i], m.data[m.order[i]])))
//@   ensures normal && !result1 ==> (forall i :: 0 <= i && i < len(m.order) ==> !app(fn, m.order[i], m.data[m.order[i]]))
//@   loop 0 invariant -1 <= rangeindex && rangeindex < len(m.order) && m.mx.held == 1
//@   loop 0 invariant forall i :: 0 <= i && i <= rangeindex ==> !app(fn, m.order[i], m.data[m.order[i]])
//@   loop 0 decreases len(m.order) - rangeindex

//@ func (*{M}).Each(fn)
//@   props C19
//@   requires m != nil && m.mx.held == 0 && wf{M}(m)
//@   maypanic
//@   modifies m.mx.held
//@   ensures (normal || panics) ==> m.mx.held == 0
//@   ensures normal && result == nil ==> (forall i :: 0 <= i && i < len(m.order) ==> app(fn, m.order[i], m.data[m.order[i]]) == nil)
//@   ensures normal && result != nil ==> (exists p :: 0 <= p && p < len(m.order) && result == app(fn, m.order[p], m.data[m.order[p]]) && (forall i :: 0 <= i && i < p ==> app(fn, m.order[i], m.data[m.order[i]]) == nil))
//@   ensures panics ==> (exists p :: 0 <= p && p < len(m.order) && apppanics(fn, m.order[p], m.data[m.order[p]]) && pv == apppv(fn, m.order[p], m.data[m.order[p]]))
//@   loop 0 invariant -1 <= rangeindex && rangeindex < len(m.order) && m.mx.held == 1
//@   loop 0 invariant forall i :: 0 <= i && i <= rangeindex ==> app(fn, m.order[i], m.data[m.order[i]]) == nil
//@   loop 0 decreases len(m.order) - rangeindex

//@ func (*{M}).EachSafe(fn)
//@   props C19
//@   requires m != nil && m.mx.held == 0 && wf{M}(m)
//@   maypanic
//@   modifies m.mx.held
//@   ensures (normal || panics) ==> m.mx.held == 0
//@   ensures panics ==> (exists p :: 0 <= p && p < len(m.order) && apppanics(fn, m.order[p], m.data[m.order[p]]) && pv == apppv(fn, m.order[p], m.data[m.order[p]]))
//@   ensures normal ==> (forall i :: 0 <= i && i < len(m.order) ==> !apppanics(fn, m.order[i], m.data[m.order[i]]))
//@   loop 0 invariant -1 <= rangeindex && rangeindex < len(m.order) && m.mx.held == 1
//@   loop 0 invariant forall i :: 0 <= i && i <= rangeindex ==> !apppanics(fn, m.order[i], m.data[m.order[i]])
//@   loop 0 decreases len(m.order) - rangeindex

//@ func (*{M}).Map(fn)
//@   props C19
//@   requires m != nil && m.mx.held == 0 && wf{M}(m)
//@   maypanic
//@   modifies m.mx.held, m.data[*]
//@   ensures (normal || panics) ==> m.mx.held == 0 && wf{M}(m)
//@   ensures (normal || panics) ==> (forall q {K} :: dom(m.data, q) == old(dom(m.data, q)))
//@   ensures normal && result == nil ==> (forall i :: 0 <= i && i < len(m.order) ==> m.data[m.order[i]] == app(fn, m.order[i], old(m.data[m.order[i]])))
//@   ensures normal && result != nil ==> (exists p :: 0 <= p && p < len(m.order) && result == app1(fn, m.order[p], old(m.data[m.order[p]])) && (forall i :: 0 <= i && i < p ==> m.data[m.order[i]] == app(fn, m.order[i], old(m.data[m.order[i]]))) && (forall i :: p <= i && i < len(m.order) ==> m.data[m.order[i]] == old(m.data[m.order[i]])))
//@   loop 0 invariant -1 <= rangeindex && rangeindex < len(m.order) && m.mx.held == 2 && wf{M}(m)
//@   loop 0 invariant forall q {K} :: dom(m.data, q) == old(dom(m.data, q))
//@   loop 0 invariant forall i :: 0 <= i && i <= rangeindex ==> m.data[m.order[i]] == app(fn, m.order[i], old(m.data[m.order[i]]))
//@   loop 0 invariant forall i :: rangeindex < i && i < len(m.order) ==> m.data[m.order[i]] == old(m.data[m.order[i]])
//@   loop 0 decreases len(m.order) - rangeindex
'''

CONTRACT += '''
//@ func (*{M}).MarshalJSON()
//@   props C19
//@   requires m != nil && m.mx.held == 0 && wf{M}(m)
//@   nopanic
//@   modifies m.mx.held
//@   ensures m.mx.held == 0
//@   loop 0 invariant -1 <= rangeindex && rangeindex < len(m.order) && m.mx.held == 1
//@   loop 0 decreases len(m.order) - rangeindex
'''

INSTANCES = [
    dict(M='ASTNodes', K='string', V='ASTNode', PKG='root', out='/repo/zz_verif_orderedmap.go', gopkg='jschema'),
    dict(M='RuleASTNodes', K='string', V='RuleASTNode', PKG='root', out='/repo/zz_verif_orderedmap.go', gopkg='jschema'),
    dict(M='Constraints', K='constraint.Type', V='constraint.Constraint', PKG='notations/jschema/internal/schema',
         out='/repo/notations/jschema/internal/schema/zz_verif_orderedmap.go', gopkg='schema'),
]

def main():
    only = sys.argv[1:]  # optional list of map names
    spec = ['// GENERATED by /verif/tools/gen_orderedmap.py from one template; do not edit.',
            '// Oracle for property C19: abstract insertion-ordered map view of the three generated map types.',
            'package root', 'ghostfield sync.RWMutex.held int', 'ghostfield sync.Once.fired bool']
    files = {}
    for inst in INSTANCES:
        if only and inst['M'] not in only:
            continue
        spec.append(SPEC.format(**inst))
        files.setdefault(inst['out'], [inst['gopkg'], []])[1].append(CONTRACT.format(**inst))
    open('/verif/spec/20_orderedmap_gen.gvs', 'w').write('\n'.join(spec) + '\n')
    for path, (gopkg, blocks) in files.items():
        with open(path, 'w') as f:
            f.write('//go:build verif\n\npackage %s\n\n// GENERATED by /verif/tools/gen_orderedmap.py (contracts for govc, property C19).\n// Comment-only file.\n' % gopkg)
            for b in blocks:
                f.write(b)

if __name__ == '__main__':
    main()
