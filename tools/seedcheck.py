#!/usr/bin/env python3
"""Confirm a sub-agent's seeded change and run the registered checks against it.
usage: seedcheck.py ID K [PROPERTY...]   (reads /tmp/seed/ID/_seed/K, writes /verif/seeded/ID-K/)
Steps: (1) scratch worktree of /repo: apply, build, full suite, demo with/without;
(2) copy patch+demo+meta to /verif/seeded; (3) apply to /repo, run bin/govc check for the
property (and any extra given), undo with git checkout."""
import sys, os, subprocess, json, shutil, re, tempfile
ID, K = sys.argv[1], sys.argv[2]
props = sys.argv[3:] or [ID]
src = f'/tmp/seed/{ID}/_seed/{K}'
dst = f'/verif/seeded/{ID}-{K}'
env = dict(os.environ, GOFLAGS='-mod=mod', GOPROXY='off', GOSUMDB='off', GOTOOLCHAIN='local')
def run(cmd, cwd, **kw):
    return subprocess.run(cmd, cwd=cwd, env=env, capture_output=True, text=True, **kw)
patch = open(f'{src}/patch.diff').read()
demo = open(f'{src}/demo_test.go').read()
m = re.search(r'place in:\s*(\S+)', demo)
place = m.group(1).rstrip('/') if m else '.'
if place in ('repo', 'root', '(repo', 'the'):
    place = '.'
meta = {'property': ID, 'source': f'independent sub-agent (worktree /tmp/seed/{ID}, change {K})', 'demo_package_dir': place}
wt = tempfile.mkdtemp(prefix='seedchk-', dir='/var/tmp')
os.rmdir(wt)
try:
    subprocess.check_call(['git', '-C', '/repo', 'worktree', 'add', '-q', '--detach', wt, 'HEAD'])
    demo_name = 'zz_seed_demo_test.go'
    def demo_run():
        shutil.copy(f'{src}/demo_test.go', os.path.join(wt, place, demo_name))
        r = run(['go', 'test', '-vet=off', '-count=1', '-timeout', '120s', '-run', '.', './' + place], wt)
        os.remove(os.path.join(wt, place, demo_name))
        return r.returncode == 0, (r.stdout + r.stderr)[-1500:]
    # demo on clean tree: run only tests of the demo file → use -run with names
    names = re.findall(r'func (Test\w+)\(', demo)
    def demo_run_named():
        shutil.copy(f'{src}/demo_test.go', os.path.join(wt, place, demo_name))
        r = run(['go', 'test', '-vet=off', '-count=1', '-timeout', '120s', '-run', '^(' + '|'.join(names) + ')$', './' + place], wt)
        os.remove(os.path.join(wt, place, demo_name))
        return r.returncode == 0, (r.stdout + r.stderr)[-1500:]
    ok_clean, out_clean = demo_run_named()
    a = run(['git', 'apply', f'{src}/patch.diff'], wt)
    meta['patch_applies'] = a.returncode == 0
    b = run(['go', 'build', './...'], wt)
    meta['builds'] = b.returncode == 0
    t = run(['go', 'test', '-vet=off', '-count=1', './...'], wt)
    fails = sorted(set(re.findall(r'^--- FAIL: (\S+)', t.stdout, re.M)))
    meta['suite_failures_with_change'] = fails
    meta['suite_ok'] = fails == ['TestEnum_String']
    ok_mut, out_mut = demo_run_named()
    meta['demo_passes_on_clean_tree'] = ok_clean
    meta['demo_fails_with_change'] = not ok_mut
    meta['demo_output_with_change'] = out_mut[-600:]
finally:
    subprocess.call(['git', '-C', '/repo', 'worktree', 'remove', '--force', wt])
notes = open(f'{src}/notes.md').read() if os.path.exists(f'{src}/notes.md') else ''
meta['needs_to_manifest'] = notes[:1500]
confirmed = meta['patch_applies'] and meta['builds'] and meta['suite_ok'] and ok_clean and not ok_mut
meta['confirmed'] = confirmed
print(json.dumps({k: meta[k] for k in ('patch_applies', 'builds', 'suite_ok', 'demo_passes_on_clean_tree', 'demo_fails_with_change', 'confirmed')}))
if not confirmed:
    print('NOT CONFIRMED', meta.get('suite_failures_with_change'), out_clean[-300:] if not ok_clean else '')
    sys.exit(1)
os.makedirs(dst, exist_ok=True)
shutil.copy(f'{src}/patch.diff', f'{dst}/patch.diff')
shutil.copy(f'{src}/demo_test.go', f'{dst}/demo_test.go')
# run the checks against the change (on a scratch worktree of /repo, so that /repo itself stays untouched)
results = {}
wt2 = tempfile.mkdtemp(prefix='seedrun-', dir='/var/tmp')
os.rmdir(wt2)
subprocess.check_call(['git', '-C', '/repo', 'worktree', 'add', '-q', '--detach', wt2, 'HEAD'])
try:
    subprocess.check_call(['git', '-C', wt2, 'apply', f'{dst}/patch.diff'])
    for p in props:
        rd = tempfile.mkdtemp(prefix='seedreplays-', dir='/var/tmp')
        r = subprocess.run(['/verif/bin/govc', 'check', '--property', p, '--repo', wt2, '--no-evidence', '--replay-dir', rd], cwd='/verif', capture_output=True, text=True)
        shutil.rmtree(rd, ignore_errors=True)
        viol = [l for l in (r.stdout + r.stderr).split('\n') if l.startswith('govc: ') and ('#' in l)]
        results[p] = {'exit': r.returncode, 'violations': len([l for l in r.stdout.split('\n') if l.startswith('VIOLATION')]), 'failed_obligations': [v[6:160] for v in viol][:8]}
finally:
    subprocess.call(['git', '-C', '/repo', 'worktree', 'remove', '--force', wt2])
meta['checks_run'] = results
meta['detected_by'] = [p for p, r in results.items() if r['exit'] == 1]
json.dump(meta, open(f'{dst}/meta.json', 'w'), indent=1)
print('checks:', json.dumps(results)[:1200])
