#!/usr/bin/env python3
"""Re-run the registered checks against stored seeded changes and update their meta.json.
usage: reseed.py [SEED-ID ...]   (default: all of /verif/seeded/*)
Each change is applied to a scratch worktree of /repo HEAD (never to /repo itself)."""
import sys, os, json, subprocess, tempfile, shutil, re
seeds = sys.argv[1:] or sorted(os.listdir('/verif/seeded'))
# FROZEN=<dir> (with bin/govc, spec/, expected/, known_findings.json) and REV=<commit of /repo> pin the
# machinery a long background re-run uses, so that work going on in /verif and /repo does not disturb it
FROZEN = os.environ.get('FROZEN', '/verif')
REV = os.environ.get('REV', 'HEAD')
manifest = json.load(open('/verif/MANIFEST.json'))
claimed = [c['property_id'] for c in manifest['checks']]
# which registered checks to run for a seed: its own property plus the ones its files are carriers of
extra = {'C11-3': ['C04'], 'C15-3': ['C03'], 'C04-3': ['C08'], 'C11-2': ['C06'], 'C13-2': ['C02'], 'C03-1': ['C01'], 'C09-3': ['C03'], 'C01-3': ['C13']}
for sd in seeds:
    d = f'/verif/seeded/{sd}'
    if not os.path.exists(f'{d}/patch.diff'):
        continue
    meta = json.load(open(f'{d}/meta.json')) if os.path.exists(f'{d}/meta.json') else {}
    prop = meta.get('property', sd.split('-')[0])
    props = [p for p in [prop] + extra.get(sd, []) if p in claimed]
    wt = tempfile.mkdtemp(prefix='reseed-', dir='/var/tmp'); os.rmdir(wt)
    subprocess.check_call(['git', '-C', '/repo', 'worktree', 'add', '-q', '--detach', wt, REV])
    results = {}
    try:
        a = subprocess.run(['git', '-C', wt, 'apply', f'{d}/patch.diff'], capture_output=True, text=True)
        if a.returncode != 0:
            print(sd, 'PATCH DOES NOT APPLY', a.stderr[:200]); continue
        for p in props:
            rd = tempfile.mkdtemp(prefix='reseedrep-', dir='/var/tmp')
            r = subprocess.run([FROZEN + '/bin/govc', 'check', '--property', p, '--repo', wt, '--no-evidence', '--replay-dir', rd], cwd=FROZEN, capture_output=True, text=True, env=dict(os.environ, GOVC_VERIF_DIR=FROZEN, TMPDIR=rd))
            shutil.rmtree(rd, ignore_errors=True)
            viol = [l for l in (r.stdout + r.stderr).split('\n') if l.startswith('govc: ') and '#' in l]
            results[p] = {'exit': r.returncode, 'violations': len([l for l in r.stdout.split('\n') if l.startswith('VIOLATION')]), 'failed_obligations': [v[6:170] for v in viol][:6]}
    finally:
        subprocess.call(['git', '-C', '/repo', 'worktree', 'remove', '--force', wt])
    meta['checks_run'] = results
    meta['detected_by'] = [p for p, r in results.items() if r['exit'] == 1]
    json.dump(meta, open(f'{d}/meta.json', 'w'), indent=1)
    print(sd, 'detected_by', meta['detected_by'], {p: r['exit'] for p, r in results.items()})
