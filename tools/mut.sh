#!/bin/bash
# usage: mut.sh FILE SED_EXPR REGEX  -- apply a one-off mutation to /repo, run govc verify, revert
set -u
f=/repo/$1
cp "$f" /tmp/mut.bak
sed -i "$2" "$f"
if cmp -s "$f" /tmp/mut.bak; then echo "MUTATION DID NOT APPLY"; fi
(cd /repo && git diff --no-color -- "$1" | grep '^[-+]' | grep -v '^+++\|^---' | head -6)
${GOVC:-/verif/bin/govc} verify "$3" 2>&1 | grep -v "file:" | cut -c1-220 | tail -${4:-6}
cp /tmp/mut.bak "$f"
