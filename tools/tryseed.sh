#!/bin/bash
# usage: tryseed.sh SEED REGEX   -- apply a stored seed to /repo (must be clean of source edits), verify, undo with apply -R
p=/verif/seeded/$1/patch.diff
cd /repo && git apply "$p" || exit 2
${GOVC:-/verif/bin/govc} verify "$2" 2>&1 | grep -v "file:" | cut -c1-200 | tail -${3:-4}
cd /repo && git apply -R "$p"
