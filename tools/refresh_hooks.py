#!/usr/bin/env python3
"""Refresh MANIFEST.hooks.source_commits from /repo's history (commits whose message starts with 'verif:')."""
import json, subprocess
m = json.load(open('/verif/MANIFEST.json'))
out = subprocess.check_output(['git', '-C', '/repo', 'log', '--reverse', '--format=%h %s'], text=True)
commits = [l.split()[0] for l in out.splitlines() if l.split(' ', 1)[1].startswith('verif:')]
m['hooks']['source_commits'] = commits
json.dump(m, open('/verif/MANIFEST.json', 'w'), indent=1, ensure_ascii=False)
print(len(commits), 'verif: commits')
