#!/usr/bin/env python3
"""Create a must-fail self-test case: a deliberately property-breaking edit.
usage: mkselftest.py NAME PROPERTY EXPECT WHAT FILE OLD NEW [FILE OLD NEW ...]
The edit is made on a scratch copy of /repo (removed afterwards); the diff is
stored as /verif/selftest/NAME.patch with NAME.json next to it."""
import sys, subprocess, tempfile, shutil, json, os
name, prop, expect, what = sys.argv[1:5]
edits = sys.argv[5:]
tmp = tempfile.mkdtemp(prefix='mkst-', dir='/var/tmp')
try:
    repo = os.path.join(tmp, 'repo')
    subprocess.check_call(['cp', '-r', '/repo', repo])
    for i in range(0, len(edits), 3):
        f, old, new = edits[i:i+3]
        p = os.path.join(repo, f)
        s = open(p).read()
        if s.count(old) != 1:
            sys.exit('pattern occurs %d times in %s: %r' % (s.count(old), f, old))
        open(p, 'w').write(s.replace(old, new))
    r = subprocess.run(['go', 'build', './...'], cwd=repo, capture_output=True, text=True,
                       env=dict(os.environ, GOFLAGS='-mod=mod', GOPROXY='off', GOSUMDB='off', GOTOOLCHAIN='local'))
    if r.returncode != 0:
        sys.exit('mutant does not build: ' + r.stderr)
    files = [edits[i] for i in range(0, len(edits), 3)]
    diff = subprocess.check_output(['git', '-C', repo, 'diff', '--'] + files).decode()
    open('/verif/selftest/%s.patch' % name, 'w').write(diff)
    json.dump({'property': prop, 'expect': expect, 'what': what}, open('/verif/selftest/%s.json' % name, 'w'), indent=1)
    print('wrote', name)
finally:
    shutil.rmtree(tmp)
